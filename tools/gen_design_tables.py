#!/usr/bin/env python3
"""Fills the FINDINGS and SEEDS regions of DESIGN.md from known_findings.json and seeded/*/*/{meta.json,result.txt};
also records `detected_by` in every seeded meta.json."""
import glob
import json
import os
import re

ROOT = os.path.dirname(os.path.dirname(os.path.abspath(__file__)))


def findings():
    k = json.load(open(os.path.join(ROOT, "known_findings.json")))["findings"]
    rows = ["| id | property | state | what fails (failing input / history) | where |", "|----|----------|-------|------------------------|-------|"]
    for f in sorted(k, key=lambda f: (f["property"], f["id"])):
        what = f["what"]
        what = re.sub(r"^fixed: property=\S+ \S+ ", "", what)
        state = f["state"] + (" `%s`" % f["commit"] if f.get("commit") else "")
        rows.append("| %s | %s | %s | %s | %s |" % (f["id"], f["property"], state, what.replace("|", "\\|"), f.get("where", "").replace("|", "\\|")))
    return "\n".join(rows)


def seeds():
    rows = ["| seed | what it changes (needs to manifest) | quick check | result |", "|------|--------------------------------------|-------------|--------|"]
    n_det = n_all = 0
    for d in sorted(glob.glob(os.path.join(ROOT, "seeded", "C*", "[0-9]"))):
        pid = d.split("/")[-2]
        n = d.split("/")[-1]
        meta = json.load(open(os.path.join(d, "meta.json")))
        notes = open(os.path.join(d, "notes.md")).read() if os.path.exists(os.path.join(d, "notes.md")) else ""
        title = ""
        for ln in notes.splitlines():
            ln = ln.strip("# ").strip()
            if len(ln) > 15:
                title = ln
                break
        res_path = os.path.join(d, "result.txt")
        verdict = "not run"
        detail = ""
        if os.path.exists(res_path):
            txt = open(res_path).read()
            viol = len(re.findall(r"^VIOLATION", txt, re.M))
            m = re.search(r"seedcheck rc=(\d+)", txt)
            rc = int(m.group(1)) if m else None
            if rc == 1 and viol:
                verdict = "**detected** (%d VIOLATION line%s)" % (viol, "" if viol == 1 else "s")
                n_det += 1
            elif rc == 0:
                verdict = "missed"
            elif rc == 3:
                verdict = "harness error / timeout (exit 3): no verdict"
            else:
                verdict = "rc=%r" % rc
            meta["detected_by"] = ("./vcheck %s --tier quick" % pid) if (rc == 1 and viol) else None
            meta["sweep"] = {"exit": rc, "violation_lines": viol}
            json.dump(meta, open(os.path.join(d, "meta.json"), "w"), indent=1)
        for other in sorted(glob.glob(os.path.join(d, "result.C*.txt"))):
            oid = os.path.basename(other).split(".")[1]
            otxt = open(other).read()
            m2 = re.search(r"seedcheck rc=(\d+)", otxt)
            if m2 and int(m2.group(1)) == 1 and re.search(r"^VIOLATION", otxt, re.M):
                verdict += "; detected by `./vcheck %s`" % oid
                meta["also_detected_by"] = "./vcheck %s --tier quick" % oid
                json.dump(meta, open(os.path.join(d, "meta.json"), "w"), indent=1)
        n_all += 1
        rows.append("| %s/%s | %s | `./vcheck %s` | %s |" % (pid, n, title[:150].replace("|", "\\|"), pid, verdict))
    rows.append("")
    rows.append("Detected by the property's own quick check: **%d of %d**." % (n_det, n_all))
    return "\n".join(rows)


def main():
    p = os.path.join(ROOT, "DESIGN.md")
    s = open(p).read()
    s = re.sub(r"(<!-- FINDINGS:BEGIN -->\n).*?(\n<!-- FINDINGS:END -->)", lambda m: m.group(1) + findings() + m.group(2), s, flags=re.S)
    s = re.sub(r"(<!-- SEEDS:BEGIN -->\n).*?(\n<!-- SEEDS:END -->)", lambda m: m.group(1) + seeds() + m.group(2), s, flags=re.S)
    open(p, "w").write(s)
    print("DESIGN.md tables regenerated")


if __name__ == "__main__":
    main()
