#!/bin/sh
# tools/seedsweep.sh [IDs...]: for every stored seeded change of the given properties run that property's quick check
# against it (scratch worktree, fail-fast) and record the verdict in seeded/<id>/<n>/result.txt
cd "$(dirname "$0")/.."
IDS="$@"
[ -z "$IDS" ] && IDS=$(python3 -c "import json;print(' '.join(c['property_id'] for c in json.load(open('MANIFEST.json'))['checks']))")
for id in $IDS; do
  for n in ${NS:-1 2 3 4 5 6}; do
    d=seeded/$id/$n
    [ -f $d/patch.diff ] || continue
    s=$(date +%s)
    tools/seedcheck.sh $d/patch.diff $id quick --fail-fast > $d/result.txt 2>&1
    rc=$?
    e=$(date +%s)
    echo "$id/$n rc=$rc $((e-s))s $(grep -c '^VIOLATION' $d/result.txt) violations"
  done
done
