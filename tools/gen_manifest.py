#!/usr/bin/env python3
"""Regenerates MANIFEST.json from the harness modules present (claimed) and the table below."""
import json
import os
import sys

ROOT = os.path.dirname(os.path.dirname(os.path.abspath(__file__)))

TEXT = {
    "C01": ("bounded symbolic model checking of the real pool code: one attempt (re-entrant urlopen cut) from an arbitrary valid "
            "pool state with a fault at any I/O step, invariant re-established => inductive over retry/redirect chains",
            "CrossHair/z3 per path; in-memory socket layer replaces the kernel; queue.LifoQueue, http.client trusted"),
    "C02": ("symbolic-interference checking: the racing close()/other-thread queue actions are placed at symbolic ticks over "
            "every shared-state access of one request (rely/guarantee)",
            "no free byte-code interleavings; queue.LifoQueue linearizable; see DESIGN 6"),
    "C03": ("bounded symbolic model checking of tagged request/response histories on pooled connections",
            "in-memory peer; http.client trusted"),
    "C04": ("Retry.increment decided for unbounded symbolic counters (partitioned), sleeps for symbolic float backoff "
            "parameters, one urlopen attempt with a spying Retry, small closed loops",
            "composition of lemmas R and U is an argument; clock/random stubbed"),
    "C05": ("one redirect hop (re-entry cut) from any policy state at request/pool/manager layer, plus bounded chains",
            "in-memory peers; oracle from RFC 9110 15.4 and urljoin semantics"),
    "C06": ("one redirect hop with symbolic header casings/containers/origin deltas; 2-hop chains",
            "hashing pins free header names; names from casing pools"),
    "C07": ("symbolic execution of the TLS decision code over the full settings lattice with OpenSSL replaced by a contract stub",
            "real handshakes outside; stub contract is the trusted base"),
    "C08": ("label-template symbolic execution of match_hostname + SMT language lemmas on the regex _dnsname_match compiles; "
            "symbolic pin edit scripts for fingerprints",
            "hashlib concrete; hmac.compare_digest replaced by =="),
    "C09": ("symbolic execution of ProxyManager routing over in-memory proxy/origin peers with TLS cut at the wrap function",
            "TLS bytes abstracted"),
    "C10": ("SMT language lemmas on the live validation regexes + symbolic wire harnesses with an independent strict request parser",
            "http.client's own checks are part of the executed code"),
    "C11": ("symbolic body content/shape through HTTPConnection.request with an independent framing parser; resend histories",
            "file objects are fixtures"),
    "C12": ("symbolic read-call scripts (kinds and amounts) over fixture payloads/codings through the real http.client reader",
            "codecs are C: concrete fixtures"),
    "C13": ("symbolic cut positions / corrupted bytes x read patterns; header sanity with symbolic integers",
            "codecs concrete"),
    "C14": ("SMT regular-language lemmas (any length) on the compiled URL patterns + solver-enumerated URL skeleton holes "
            "through the real parse_url against an independent RFC 3986 reading",
            "running-time clause not decided; IDNA tables outside"),
    "C15": ("symbolic URL skeletons through PoolManager onto the in-memory wire: dial address, Host, SNI, target",
            "TLS cut at wrap function"),
    "C16": ("inductive step on HTTPHeaderDict: one operation from symbolic states with unbounded symbolic values against a "
            "reference multimap", "names from a casing pool"),
    "C17": ("inductive step on the LRU container with dispose/lock monitors; PoolManager layer over the in-memory net",
            "free interleavings reduced by lock-discipline argument"),
    "C18": ("pool keys for contexts differing in one keyword with unconstrained symbolic values, compared as tuples; map layer on fixtures",
            "LRU dict cut in the key layer"),
    "C19": ("Timeout arithmetic with unbounded symbolic ints/floats and a symbolic clock, unit and pool level",
            "NaN/inf outside"),
    "C20": ("per-code-point lemma for the WHATWG escaping + one symbolic component through the encoder and an independent strict parser",
            "BytesIO realises values: alphabet-bounded"),
}

NOT_YET = "check not built yet in this tree (design in DESIGN.md section 3); no claim is made"


def main():
    props = [json.loads(l) for l in open(os.path.join(ROOT, "properties.jsonl"))]
    checks = []
    na = []
    for p in props:
        pid = p["id"]
        mod = os.path.join(ROOT, "harness", pid.lower() + ".py")
        if os.path.exists(mod) and pid not in NA_OVERRIDE:
            t, note = TEXT[pid]
            checks.append({
                "property_id": pid,
                "quick_cmd": "./vcheck %s --tier quick" % pid,
                "thorough_cmd": "./vcheck %s --tier thorough" % pid,
                "evidence_file": "evidence/%s.json" % pid,
                "replay_cmd_template": "./vcheck %s --replay {path}" % pid,
                "engine": "E1 CrossHair/z3 on /repo/src" + (" + E2 regex->z3 lemmas" if pid in ("C08", "C10", "C14") else ""),
                "level_claimed": {"category": "model_checking", "text": t + "; every result is bounded (see evidence bounds), "
                                  "CONFIRMED = all paths inside the bound decided by z3, otherwise reported explored-only",
                                  "design_ref": "DESIGN.md 3 " + pid},
                "level_note": note,
                "technique": "bounded symbolic execution of the real Python code with an SMT solver (CrossHair 0.0.110 + z3 5.1)"
                             + ("; SMT regular-language queries generated from the live compiled patterns"
                                if pid in ("C08", "C10", "C14") else ""),
            })
        else:
            na.append({"property_id": pid, "reason": NA_OVERRIDE.get(pid, NOT_YET)})
    man = {
        "version": 1,
        "setup_cmd": "./setup.sh",
        "hooks": {"guard": "URLLIB3_VERIF", "enable": "no source hooks: harnesses replace module attributes in their own process "
                  "(URLLIB3_VERIF=1 is exported by ./vcheck for uniformity)",
                  "baseline_off_cmd": "cd /repo && /venv/bin/python -m pytest -ra -q -p no:cacheprovider --timeout=900 "
                                      "--continue-on-collection-errors",
                  "source_commits": [], "add_only": True},
        "engines": [
            {"name": "E1", "path": "engine/worker.py", "serves_properties": [c["property_id"] for c in checks],
             "kind_free_text": "CrossHair symbolic execution of /repo/src modules, one condition per process, z3 decides each path"},
            {"name": "E2", "path": "engine/re2smt.py", "serves_properties": ["C08", "C10", "C14"],
             "kind_free_text": "regex -> z3 sequence/regex theory; language emptiness/inclusion; cvc5 second opinion"},
        ],
        "checks": checks,
        "not_applicable": na,
        "notes": "exit 0 = held on everything explored; 1 = VIOLATION (natively replayed); 3 = harness error. Known findings are "
                 "listed in known_findings.json and announced as KNOWN-FINDING lines.",
    }
    json.dump(man, open(os.path.join(ROOT, "MANIFEST.json"), "w"), indent=1)
    print("claimed:", [c["property_id"] for c in checks])
    print("not claimed:", [n["property_id"] for n in na])


NA_OVERRIDE = {}

if __name__ == "__main__":
    main()
