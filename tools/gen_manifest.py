#!/usr/bin/env python3
"""Regenerates MANIFEST.json from the harness modules present (claimed) and the table below."""
import json
import os
import sys

ROOT = os.path.dirname(os.path.dirname(os.path.abspath(__file__)))

TEXT = {
    "C01": ("bounded symbolic model checking of the real pool code: one attempt (re-entrant urlopen cut) from an arbitrary valid "
            "pool state with a fault at any I/O step, invariant re-established => inductive over retry/redirect chains",
            "CrossHair/z3 per path; in-memory socket layer replaces the kernel; queue.LifoQueue, http.client trusted"),
    "C02": ('every schedule (two pre-emptions of the worker, one of the other thread) of two real threads running the real pool code in lock-step; scheduling points = every access to pool.pool and every queue operation; the other thread is the real close() or a second request',
            'two threads; pre-emption only at shared-state accesses (others commute); queue.LifoQueue internals trusted; liveness approximated by quiescence'),
    "C03": ("every history (server behaviour x caller disposal x response object kept/dropped/closed x remainder in flight) of tagged requests on pooled keep-alive connections, solver-enumerated",
            "in-memory peer; http.client trusted"),
    "C04": ("Retry.increment decided for unbounded symbolic counters (partitioned), sleeps for symbolic float backoff "
            "parameters, Retry-After dates under a symbolic wall clock, attempt histories with a spying Retry over direct/forwarding/tunnel topologies",
            "composition of lemmas R and U is an argument; clock/random stubbed"),
    "C05": ("one redirect hop (re-entry cut) from any policy state at request/pool/manager layer, bounded endless chains, and chains behind a failed first attempt",
            "in-memory peers; oracle from RFC 9110 15.4 and urljoin semantics"),
    "C06": ("one redirect hop with symbolic header casings/containers/origin deltas; 2-hop chains",
            "hashing pins free header names; names from casing pools"),
    "C07": ('every point of the client-settings lattice x every server certificate shape x 4 topologies through the real TLS decision code with OpenSSL replaced by its documented contract',
            'real handshakes outside; the contract of kit/tls.py is the trusted base'),
    "C08": ("label-template symbolic execution of match_hostname + SMT language lemmas on the regex _dnsname_match compiles; "
            "symbolic pin edit scripts for fingerprints",
            "hashlib concrete; hmac.compare_digest replaced by =="),
    "C09": ('every routing configuration (CONNECT reply, certificate validity per leg, host form, port, proxy headers, caller Host, request count, tunnel closed in between) through the real ProxyManager/tunnel code over an in-memory relaying proxy',
            'TLS bytes abstracted by the contract stub'),
    "C10": ("SMT language lemmas on the live validation regexes + wire harnesses with an independent strict request parser (hostile fields, hostile bodies, rejected-then-reused connections)",
            "http.client's own checks are part of the executed code"),
    "C11": ("symbolic body content/shape through HTTPConnection.request with an independent framing parser; resend histories",
            "file objects are fixtures"),
    "C12": ('every read script (<=2 prefix calls + finisher, kinds and amounts) x segmentation x decode flag over fixture payloads/codings/framings through the real http.client reader',
            'codecs are C: concrete fixtures; values are enumerated, not symbolic, once they reach C'),
    "C13": ('every cut position / single-byte corruption x read pattern x segmentation on pooled connections, followed by a second request; Content-Length header forms',
            "codecs concrete; reference decoders decide 'undecodable'"),
    "C14": ("SMT regular-language lemmas (any length) on the compiled URL patterns + solver-enumerated URL skeleton holes "
            "through the real parse_url against an independent RFC 3986 reading",
            "running time: only ambiguous iteration of unbounded repeats (catastrophic backtracking) is decided; IDNA tables outside"),
    "C15": ("URL skeletons through PoolManager onto the in-memory wire: dial address, Host, SNI, target; two spellings of one origin raced by two real threads under every schedule",
            "TLS cut at wrap function"),
    "C16": ("inductive step on HTTPHeaderDict: one operation from symbolic states with unbounded symbolic values against a "
            "reference multimap", "names from a casing pool"),
    "C17": ("inductive step on the LRU container with dispose/lock monitors; PoolManager layer over the in-memory net; every schedule of two real threads on one PoolManager against a linearizability oracle",
            "two threads, pre-emption at lock and dict accesses; beyond that a lock-discipline argument"),
    "C18": ("pool keys for contexts differing in one keyword with unconstrained symbolic values, compared as tuples; map layer on fixtures",
            "LRU dict cut in the key layer"),
    "C19": ("Timeout arithmetic with unbounded symbolic ints/floats and a symbolic clock, unit and pool level (direct and CONNECT-tunnel topology, reply pending early or not)",
            "NaN/inf outside"),
    "C20": ("per-code-point lemmas (escaping function; RequestField/from_tuples/render_headers) + one symbolic component through the encoder and an independent strict parser",
            "BytesIO realises values: alphabet-bounded"),
}

SYM = "bounded symbolic execution of the real Python code with an SMT solver (CrossHair 0.0.110 + z3 5.1): symbolic values flow through urllib3, z3 decides every branch"
ENUM = ("SMT-driven exhaustive exploration of a bounded space: one symbolic index pinned by z3-decided bisection (each point exactly one "
        "path, closed path tree = all points covered), each point executed on the real code (CrossHair 0.0.110 + z3 5.1)")
LEM = "; SMT regular-language queries (z3 sequence/regex theory, cvc5 cross-check) generated from the live compiled patterns, strings of any length"
TECH = {"C01": SYM, "C02": ENUM + "; two real threads in lock-step under the solver-chosen schedule", "C03": ENUM, "C04": SYM + "; " + ENUM,
        "C05": SYM + "; " + ENUM, "C06": ENUM + "; " + SYM, "C07": ENUM, "C08": ENUM + LEM, "C09": ENUM, "C10": ENUM + LEM, "C11": ENUM,
        "C12": ENUM, "C13": ENUM, "C14": ENUM + LEM, "C15": ENUM + "; two real threads in lock-step under the solver-chosen schedule", "C16": SYM, "C17": SYM + "; " + ENUM + "; two real threads in lock-step under the solver-chosen schedule", "C18": SYM + "; " + ENUM, "C19": SYM, "C20": SYM}
TECH["C03"] = ENUM
TECH["C05"] = SYM + "; " + ENUM
ENGINE = {k: ("E1-sym" if v.startswith("bounded") else "E1-enum") + (" + E1-enum" if (v.startswith("bounded") and "SMT-driven" in v) else "")
          + (" + E1-sym" if (not v.startswith("bounded") and "bounded symbolic" in v) else "") + (" + E2" if "regular-language" in v else "")
          for k, v in TECH.items()}

NOT_YET = "check not built yet in this tree (design in DESIGN.md section 3); no claim is made"


def main():
    props = [json.loads(l) for l in open(os.path.join(ROOT, "properties.jsonl"))]
    checks = []
    na = []
    for p in props:
        pid = p["id"]
        mod = os.path.join(ROOT, "harness", pid.lower() + ".py")
        if os.path.exists(mod) and pid not in NA_OVERRIDE:
            t, note = TEXT[pid]
            checks.append({
                "property_id": pid,
                "quick_cmd": "./vcheck %s --tier quick" % pid,
                "thorough_cmd": "./vcheck %s --tier thorough" % pid,
                "evidence_file": "evidence/%s.json" % pid,
                "replay_cmd_template": "./vcheck %s --replay {path}" % pid,
                "engine": ENGINE[pid],
                "level_claimed": {"category": "model_checking", "text": t + "; every result is bounded (see evidence bounds), "
                                  "CONFIRMED = all paths inside the bound decided by z3, otherwise reported explored-only",
                                  "design_ref": "DESIGN.md 3 " + pid},
                "level_note": note,
                "technique": TECH[pid],
            })
        else:
            na.append({"property_id": pid, "reason": NA_OVERRIDE.get(pid, NOT_YET)})
    man = {
        "version": 1,
        "setup_cmd": "./setup.sh",
        "hooks": {"guard": "URLLIB3_VERIF", "enable": "no source hooks: harnesses replace module attributes in their own process "
                  "(URLLIB3_VERIF=1 is exported by ./vcheck for uniformity)",
                  "baseline_off_cmd": "cd /repo && /venv/bin/python -m pytest -ra -q -p no:cacheprovider --timeout=900 "
                                      "--continue-on-collection-errors",
                  "source_commits": [], "add_only": True},
        "engines": [
            {"name": "E1-sym", "path": "engine/worker.py", "serves_properties": [p for p in TECH if "bounded symbolic" in TECH[p]],
             "kind_free_text": "CrossHair symbolic execution of /repo/src modules, one condition per process, z3 decides each path"},
            {"name": "E1-enum", "path": "kit/h.py", "serves_properties": [p for p in TECH if "SMT-driven" in TECH[p]],
             "kind_free_text": "one symbolic index per partition pinned by z3-decided bisection; the decoded point runs on the real code"},
            {"name": "E2", "path": "engine/re2smt.py", "serves_properties": ["C08", "C10", "C14"],
             "kind_free_text": "regex -> z3 sequence/regex theory; language emptiness/inclusion; cvc5 second opinion"},
        ],
        "checks": checks,
        "not_applicable": na,
        "notes": "exit 0 = held on everything explored; 1 = VIOLATION (natively replayed); 3 = harness error. Known findings are "
                 "listed in known_findings.json and announced as KNOWN-FINDING lines.",
    }
    json.dump(man, open(os.path.join(ROOT, "MANIFEST.json"), "w"), indent=1)
    print("claimed:", [c["property_id"] for c in checks])
    print("not claimed:", [n["property_id"] for n in na])


NA_OVERRIDE = {}

if __name__ == "__main__":
    main()
