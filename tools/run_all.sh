#!/bin/sh
# run every claimed check's quick (or $1) tier sequentially, log timing
cd "$(dirname "$0")/.."
tier=${1:-quick}
for id in $(python3 -c "import json;print(' '.join(c['property_id'] for c in json.load(open('MANIFEST.json'))['checks']))"); do
  s=$(date +%s)
  ./vcheck $id --tier $tier > /tmp/run_$id.log 2>&1
  rc=$?
  e=$(date +%s)
  echo "$id rc=$rc $((e-s))s $(grep -c KNOWN-FINDING /tmp/run_$id.log) known; $(tail -2 /tmp/run_$id.log | head -1 | cut -c1-200)"
done
