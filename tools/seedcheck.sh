#!/bin/sh
# tools/seedcheck.sh <patch.diff> <CHECK-ID> [tier] [extra vcheck args]: run one check against a seeded change applied in a
# scratch worktree of /repo HEAD (never in /repo itself); prints the check's verdict; removes the worktree.
PATCH=$(readlink -f "$1"); ID=$2; TIER=${3:-quick}; shift; shift; shift
WT=$(mktemp -d /tmp/seedchk.XXXXXX)
rmdir $WT
git -C /repo worktree add -q --detach $WT HEAD || exit 3
cp /repo/src/urllib3/_version.py $WT/src/urllib3/_version.py
( cd $WT && git apply --3way "$PATCH" ) || { echo "PATCH DID NOT APPLY"; git -C /repo worktree remove --force $WT; exit 3; }
cd "$(dirname "$0")/.."
VERIF_SRC=$WT/src ./vcheck $ID --tier $TIER --no-evidence "$@" > $WT.log 2>&1
rc=$?
grep -E "^(VIOLATION|KNOWN-FINDING|HARNESS-ERROR)" $WT.log | cut -c1-300 | head -8
tail -2 $WT.log | head -1 | cut -c1-250
echo "seedcheck rc=$rc log=$WT.log"
git -C /repo worktree remove --force $WT
exit $rc
