"""C07 — an HTTPS request is sent only over a connection verified as configured.

c07_lattice : the whole client-settings lattice x server certificate shapes x topologies, through the real
              HTTPSConnectionPool / ProxyManager -> HTTPSConnection.connect -> _ssl_wrap_socket_and_match_hostname ->
              create_urllib3_context / ssl_wrap_socket / assert_fingerprint / _match_hostname code, with OpenSSL replaced by its
              contract (kit/tls.py).  Every lattice point is a solver model of the precondition (one per path; CONFIRMED = the
              path tree is closed, i.e. all points of the partition were enumerated and decided).
              Asserts: request bytes reach the origin only if every check the settings demand passed (chain against the
              configured CAs unless cert_reqs is NONE; name against assert_hostname / server_hostname / URL host unless
              assert_hostname is False, cert_reqs is NONE or a fingerprint is pinned; the pin if given); a failed check surfaces
              as SSLError (possibly inside MaxRetryError / ProxyError for the proxy leg) and leaves no open socket; a direct or
              tunnelled origin leg without certificate validation (cert_reqs != REQUIRED, no pin) triggers
              InsecureRequestWarning and is never reported as verified.
"""
from __future__ import annotations

import hashlib
import ssl
import warnings

from kit.h import P, run, mark, known, concretize
from kit import net as N
from kit import env as E
from kit import tls as T

import urllib3
from urllib3 import HTTPSConnectionPool, ProxyManager
from urllib3.exceptions import HTTPError, SSLError, MaxRetryError, ProxyError, InsecureRequestWarning

DER = b"0\x82\x01\x00peer-certificate"
PIN_OK = hashlib.sha256(DER).hexdigest()
PIN_BAD = hashlib.sha256(b"other").hexdigest()
PIN_LEN = PIN_OK[:30]

HOSTS = ["good.example", "good.example.", "1.2.3.4", "[::1]", "GOOD.example"]
CERT_REQS = [None, "CERT_REQUIRED", ssl.CERT_REQUIRED, ssl.CERT_OPTIONAL, "CERT_NONE", ssl.CERT_NONE]
TOPOLOGIES = ["direct", "tunnel via http proxy", "tunnel via https proxy", "forwarding via https proxy"]


def _fail(msg):
    from kit import h
    h.INFO["why"] = msg
    return False


class Origin(N.BaseHandler):
    """Proxy: answers CONNECT with 200 and marks the tunnel; everything else (origin or forwarded) gets 200 OK."""

    def __init__(self):
        self.state = {}

    def on_send(self, sock, data):
        st = self.state.setdefault(sock.id, {"got": b"", "pos": 0, "queue": []})
        st["got"] += data
        while True:
            buf = st["got"][st["pos"]:]
            end = buf.find(b"\r\n\r\n")
            if end < 0:
                break
            head = buf[:end]
            st["pos"] += end + 4
            if head.startswith(b"CONNECT "):
                sock.tunnel_established = True
                sock.tunnel_target = head.split(b" ")[1].rsplit(b":", 1)[0].decode().strip("[]")
                sock.connect_head = head
                st["queue"].append(b"HTTP/1.0 200 Connection established\r\n\r\n")
            else:
                sock.requests = getattr(sock, "requests", []) + [head]
                st["queue"].append(N.response_bytes(200, "OK", body=b"ok"))

    def on_read(self, sock):
        st = self.state.setdefault(sock.id, {"got": b"", "pos": 0, "queue": []})
        if st["queue"]:
            return st["queue"].pop(0)
        return b""


def san_for(kind, host_i):
    host = HOSTS[host_i].strip("[]").rstrip(".")
    is_ip = host_i in (2, 3)
    if kind == 0:       # matches the URL host
        return (("IP Address", host),) if is_ip else (("DNS", host.lower()),)
    if kind == 1:       # matches only the alternative name (server_hostname / assert_hostname)
        return (("DNS", "alt.example"),)
    if kind == 4:       # a wildcard that covers only a PREFIX of the host ('*.exa' vs 'good.example'): never a match
        return (("DNS", "*." + host.split(".")[-1][:3].lower()),)
    if kind == 3:       # a dNSName spelled like the IP literal (and a wildcard variant): never a match for an IP host
        return (("DNS", host), ("DNS", "*." + host.split(".", 1)[-1])) if is_ip else (("DNS", "unrelated.example"),)
    return (("DNS", "unrelated.example"),)


def dims_of(part):
    """Settings dimensions of one partition: (cert_reqs, assert_hostname/server_hostname, fingerprint, CA config, host form,
    proxy pin).  Index 4 of the second dimension stands for 'assert_hostname unset + server_hostname override'."""
    return [part["crs"], [0, 1, 2, 3, 4], part["fps"], part["caks"], part["hosts"], [False, True] if part["topo"] in (2, 3) else [False]]


def _lattice_body(idx):
    """Client settings = ONE solver variable over the partition's product space (each point exactly one path); the server side
    (issuer of the peer's certificate, its SAN shape, the proxy's issuer) is enumerated by the harness inside every path."""
    from kit.h import decode_point
    cr, ahx, fp, cak, host_i, proxy_pin = decode_point(idx, dims_of)
    ah, sh = (0, True) if ahx == 4 else (ahx, False)
    return N._untraced(_all_servers)(P.topo, P.py, P.never_cn, cr, ah, fp, sh, P.ctxs[0], cak, host_i, P.retries, proxy_pin)


def _all_servers(topo, flavour_py, never_cn, cr, ah, fp, sh, ctxk, cak, host_i, retries_on, proxy_pin):
    for issuer in (0, 1, 2):
        for sank in ((0, 1, 2, 3) if host_i in (2, 3) else (0, 1, 2, 4)):
            for proxy_issuer in ((0, 2) if topo in (2, 3) else (0,)):
                if not _point(topo, flavour_py, never_cn, cr, ah, fp, sh, ctxk, issuer, cak, sank, host_i, retries_on,
                              proxy_issuer, proxy_pin):
                    from kit import h
                    h.INFO["why"] = "[server: issuer=%d san=%d proxy_issuer=%d] %s" % (issuer, sank, proxy_issuer, h.INFO.get("why"))
                    return False
    return True


def _point(topo, flavour_py, never_cn, cr, ah, fp, sh, ctxk, issuer, cak, sank, host_i, retries_on, proxy_issuer, proxy_pin):
    host = HOSTS[host_i]
    bare = host.strip("[]").rstrip(".")
    issuers = ["default", "custom.pem", "unknown"]
    cert = T.Cert(issuers[issuer], san_for(sank, host_i), None, DER)
    proxy_cert = T.Cert(issuers[proxy_issuer], (("DNS", "proxy.example"),), None, DER)
    script = T.Script({}, cert)
    if topo in (1, 2):
        script.certs[("tunnel", None)] = cert
    if topo in (2, 3):
        script.certs["proxy.example"] = proxy_cert
    if topo == 3:
        script.default = proxy_cert
    peer = Origin()
    netw = N.install(peer)
    E.install_clock()
    Ctx = T.install(script, "pyopenssl" if flavour_py else "ssl", never_cn)
    try:
        kw = {}
        cert_reqs = CERT_REQS[cr]
        if cert_reqs is not None:
            kw["cert_reqs"] = cert_reqs
        if ah == 1:
            kw["assert_hostname"] = False
        elif ah == 2:
            kw["assert_hostname"] = "alt.example"
        elif ah == 3:
            kw["assert_hostname"] = "nomatch.example"
        if fp:
            kw["assert_fingerprint"] = [None, PIN_OK, PIN_BAD, PIN_LEN][fp]
        if sh:
            kw["server_hostname"] = "alt.example"
        ca_name = None
        if cak == 1:
            kw["ca_certs"] = "custom.pem"
            ca_name = "custom.pem"
        elif cak == 2:
            kw["ca_cert_data"] = "custom.pem"
            ca_name = "custom.pem"
        elif cak == 3:
            kw["ca_cert_dir"] = "custom.pem"
            ca_name = "custom.pem"
        user_ctx = None
        if ctxk:
            user_ctx = Ctx()
            script.contexts.remove(user_ctx)
            if not flavour_py:
                user_ctx.cas.add("default")           # "default-like": ssl.create_default_context() has the system store
            if ctxk == 2:
                user_ctx.check_hostname = False
            elif ctxk == 3:
                user_ctx.check_hostname = False
                user_ctx.verify_mode = ssl.CERT_NONE
            kw["ssl_context"] = user_ctx
        # ---- reference: what do these settings demand? ----
        if cert_reqs is not None:
            eff = ssl.CERT_NONE if cert_reqs in ("CERT_NONE", ssl.CERT_NONE) else (ssl.CERT_OPTIONAL if cert_reqs == ssl.CERT_OPTIONAL else ssl.CERT_REQUIRED)
        elif user_ctx is not None:
            eff = user_ctx.verify_mode
        else:
            eff = ssl.CERT_REQUIRED
        if user_ctx is not None:
            trusted_set = set(user_ctx.cas)
            if ca_name:
                trusted_set.add(ca_name)
        else:
            trusted_set = {ca_name} if ca_name else ({"default"} if not flavour_py else set())
        # in forwarding mode the TLS peer IS the proxy: the very same settings are applied to the proxy's certificate
        peer_cert = proxy_cert if topo == 3 else cert
        peer_name = "proxy.example" if topo == 3 else bare
        chain_ok = peer_cert.issuer in trusted_set
        pin = kw.get("assert_fingerprint")
        demand_chain = eff != ssl.CERT_NONE
        demand_pin = pin is not None
        demand_name = (not demand_pin) and ah != 1 and eff != ssl.CERT_NONE
        name_ref = "alt.example" if ah == 2 else ("nomatch.example" if ah == 3 else ("alt.example" if sh else peer_name))
        name_ok = T._name_ok(peer_cert, name_ref, False)
        pin_ok = pin == PIN_OK
        origin_passes = (not demand_chain or chain_ok) and (not demand_name or name_ok) and (not demand_pin or pin_ok)
        proxy_tls = topo in (2, 3)
        proxy_kw = {}
        proxy_chain_ok = True
        if topo == 2:
            # the proxy leg of a tunnel has its own context (proxy_ssl_context, none here): CA files from the same keywords,
            # otherwise the default store; its own name is always right here; optionally pinned
            proxy_trusted = {ca_name} if ca_name else ({"default"} if not flavour_py else set())
            proxy_chain_ok = (proxy_cert.issuer in proxy_trusted) if eff != ssl.CERT_NONE else True
            if proxy_pin:
                proxy_kw["proxy_assert_fingerprint"] = PIN_OK
        # a caller-supplied context that insists on check_hostname cannot be combined with cert_reqs=CERT_NONE: CPython's
        # SSLContext refuses (ValueError) before any handshake
        # (verify_mode is assigned before check_hostname is switched off for pins / assert_hostname, so those do not help)
        conflict = user_ctx is not None and user_ctx.check_hostname and eff == ssl.CERT_NONE and not flavour_py
        # ---- run ----
        url_host = host
        url = "https://%s/x" % url_host
        retries = urllib3.Retry(total=1, backoff_factor=0) if retries_on else False
        exc = None
        resp = None
        with warnings.catch_warnings(record=True) as wlog:
            warnings.simplefilter("always")
            try:
                if topo == 0:
                    pool = HTTPSConnectionPool(bare if host_i != 1 else host, 443, **kw)
                    resp = pool.urlopen("GET", "/x", retries=retries)
                else:
                    pm = ProxyManager(("https" if proxy_tls else "http") + "://proxy.example:3128",
                                      use_forwarding_for_https=(topo == 3), **proxy_kw, **kw)
                    resp = pm.urlopen("GET", url, retries=retries)
            except HTTPError as e:
                exc = e
            except ValueError as e:
                if not conflict:
                    raise
                exc = e
        insecure_warned = any(issubclass(w.category, InsecureRequestWarning) for w in wlog)
        # ---- what reached the origin? ----
        origin_bytes = b""
        for s in netw.socks:
            layers = getattr(s, "tls_layers", [])
            if topo == 0:
                if layers:
                    origin_bytes += s.tx[layers[0]["tx_at"]:]
                else:
                    origin_bytes += s.tx
            elif topo in (1, 2):
                want_layers = 1 if topo == 1 else 2
                if getattr(s, "tunnel_established", False) and len(layers) >= want_layers:
                    origin_bytes += s.tx[layers[want_layers - 1]["tx_at"]:]
                elif getattr(s, "tunnel_established", False):
                    # bytes after the CONNECT exchange without the origin TLS layer = plaintext to the origin
                    head_end = s.tx.find(b"\r\n\r\n") + 4
                    origin_bytes += s.tx[head_end:]
            else:
                # forwarding: the proxy is the TLS peer; "origin" = whatever was written after the proxy leg came up
                if layers:
                    origin_bytes += s.tx[layers[0]["tx_at"]:]
                else:
                    origin_bytes += s.tx
        sent = b"GET " in origin_bytes
        passes = origin_passes and (proxy_chain_ok if topo == 2 else True)
        if conflict:
            if sent:
                return _fail("bytes sent although the context/cert_reqs combination is refused by SSLContext")
            if not isinstance(exc, ValueError):
                return _fail("check_hostname context + CERT_NONE: expected SSLContext's ValueError, got %r" % (exc,))
            mark("config conflict")
            return True
        if sent and not passes:
            return _fail("request bytes were sent although a demanded check fails: topo=%s settings=%r cert(issuer=%s san=%r) "
                         "demand chain=%s(%s) name=%s(%s vs %r) pin=%s(%s) proxy_chain_ok=%s"
                         % (TOPOLOGIES[topo], _show(kw), cert.issuer, cert.san, demand_chain, chain_ok, demand_name, name_ok, name_ref,
                            demand_pin, pin_ok, proxy_chain_ok))
        if not passes:
            root = exc
            while isinstance(root, MaxRetryError) and root.reason is not None:
                root = root.reason
            if isinstance(root, ProxyError) and root.original_error is not None and topo in (2, 3):
                root = root.original_error
            if not isinstance(root, SSLError):
                return _fail("failed check must surface as SSLError, got %r (settings %r, topo %s)" % (exc, _show(kw), TOPOLOGIES[topo]))
            if netw.open_now != 0:
                return _fail("socket left open after the failed TLS check")
            mark("refused")
            return True
        if exc is not None:
            return _fail("all demanded checks pass but the request failed: %r (settings %r, topo %s, flavour_py=%s)"
                         % (exc, _show(kw), TOPOLOGIES[topo], flavour_py))
        mark("sent")
        # ---- unvalidated origin leg: warning + never reported as verified ----
        validated = eff == ssl.CERT_REQUIRED or demand_pin
        if topo in (0, 1, 2) and not validated:
            if not insecure_warned:
                if topo == 2 and proxy_pin and known("F9"):
                    return True
                return _fail("origin leg without certificate validation (cert_reqs=%r, no pin) and no InsecureRequestWarning: topo=%s"
                             % (cert_reqs, TOPOLOGIES[topo]))
            mark("warned")
        conns = []
        pools = [pool] if topo == 0 else list(pm.pools._container.values())
        for pl in pools:
            q = list(pl.pool.queue) if pl.pool is not None else []
            conns.extend(c for c in q if c is not None)
        for c in conns:
            if topo in (0, 1, 2) and not validated and getattr(c, "is_verified", False):
                return _fail("connection reports is_verified=True although cert_reqs=%r and no pin" % (cert_reqs,))
        return True
    finally:
        T.uninstall()
        N.uninstall()
        E.uninstall_clock()


def _show(kw):
    return {k: (v if not isinstance(v, T.ContractContext) else "ctx(verify=%s,check_hostname=%s)" % (int(v.verify_mode), v.check_hostname))
            for k, v in kw.items()}


def c07_lattice(idx: int) -> bool:
    """
    pre: 0 <= idx < P.n
    post: _
    """
    return run(_lattice_body, idx)


DIMS = {"c07_lattice": dims_of}


def JOBS(tier):
    from kit.h import space_size
    quick = tier == "quick"
    t = 170 if quick else 900
    jobs = []
    for topo in range(4):
        for py in (False, True):
            for ctxk in range(4):
                if py and ctxk:
                    continue           # caller-supplied contexts are exercised with the ssl flavour
                for never_cn in ((True,) if quick else (True, False)):
                    for retries in ((False,) if quick else (False, True)):
                        part = {"topo": topo, "py": py, "ctxs": [ctxk], "fps": [0, 1, 2] if quick else [0, 1, 2, 3],
                                "crs": [0, 2, 3, 4] if quick else list(range(6)),
                                "caks": ([0, 2] if not (py and ctxk == 0) else [1, 2]) if quick else ([0, 1, 2, 3] if not (py and ctxk == 0) else [1, 2, 3]),
                                "hosts": [0, 2] if quick else [0, 1, 2, 3, 4], "never_cn": never_cn, "retries": retries}
                        part["n"] = space_size(dims_of(part))
                        jobs.append({"func": "c07_lattice", "timeout": t, "path_timeout": 60, "samples": 1, "part": part})
    return jobs


EVIDENCE = {
    "bounds": {"quick": "4 topologies (direct, tunnel via http proxy, tunnel via https proxy, forwarding via https proxy) x {ssl, pyOpenSSL-like} "
                        "backend x cert_reqs {unset, REQUIRED, OPTIONAL, NONE} x assert_hostname {unset, False, matching, mismatching} x "
                        "assert_fingerprint {unset, right, wrong} x server_hostname override x caller SSLContext {none, default-like, "
                        "check_hostname off, verify NONE} x CA configuration {none, ca_cert_data} x host {name, IPv4} x proxy pin: every settings point is a solver "
                        "model of the precondition; per point the harness plays every server: issuer {default store, configured CA, unknown} x SAN "
                        "{matches URL host, only the alternative name, unrelated, dNSName spelled like the IP} x proxy issuer",
               "thorough": "+ string spellings of cert_reqs, bad-length pin, ca_certs / ca_cert_dir, 5 host forms (trailing dot, IPv4, bracketed "
                           "IPv6, upper case), HAS_NEVER_CHECK_COMMON_NAME off, retries on"},
    "outside": ["real certificate chain validation and OpenSSL/pyOpenSSL hostname checking (C code, replaced by the contract in kit/tls.py)",
                "TLS record handling of SSLTransport", "cipher/version negotiation"],
    "stubs": ["urllib3.util.ssl_.SSLContext -> ContractContext (the real create_urllib3_context configures it)",
              "urllib3.util.ssl_.SSLTransport -> ContractTransport", "create_connection -> MemSock", "urllib3.connection.datetime -> fixed date",
              "IS_PYOPENSSL / HAS_NEVER_CHECK_COMMON_NAME set per partition"],
    "assumptions": ["the handshake contract of kit/tls.py: fails iff (verify_mode != NONE and issuer not loaded) or (check_hostname and name "
                    "mismatch); CPython's coupling of verify_mode and check_hostname",
                    "lattice points are realised first and the request then runs outside the tracer (finite configuration space)"],
}
