"""C01 — a pool never loses, duplicates or leaks connection slots, whatever the outcome.

c01_step : ONE attempt (re-entrant urlopen cut) from an arbitrary valid pool state, with a fault
           (or none) injected at one I/O step; afterwards the response, if any, is disposed of.
           Asserts the representation invariant INV again (inductive step), block=True bound on
           open sockets, and that the caller only ever sees urllib3 exceptions / the interrupt.
c01_hist : 2-3 consecutive requests from a fresh pool (reachability cross-check of the pre-states
           + the public EmptyPoolError observation).
"""
from __future__ import annotations

import errno
import http.client
import socket
import ssl

from kit.h import P, run, mark, known
from kit import net as N
from kit import env as E

import urllib3
from urllib3.connectionpool import HTTPConnectionPool
from urllib3.exceptions import HTTPError, EmptyPoolError
from urllib3.util.retry import Retry


class Interrupt(BaseException):
    """Stands for KeyboardInterrupt/SystemExit/GeneratorExit (CrossHair steers with BaseException
    subclasses of its own, so the symbolic run uses a private one; replays use it as well — the
    code under test has no handler that distinguishes them)."""


FAULTS = [
    ("timeout", lambda: socket.timeout("timed out")),
    ("refused", lambda: ConnectionRefusedError(errno.ECONNREFUSED, "refused")),
    ("gaierror", lambda: socket.gaierror(-2, "Name or service not known")),
    ("epipe", lambda: BrokenPipeError(errno.EPIPE, "Broken pipe")),
    ("reset", lambda: ConnectionResetError(errno.ECONNRESET, "reset")),
    ("eprototype", lambda: OSError(errno.EPROTOTYPE, "Protocol wrong type for socket")),
    ("eio", lambda: OSError(errno.EIO, "I/O error")),
    ("sslerror", lambda: ssl.SSLError(1, "[SSL] boom")),
    ("certerror", lambda: ssl.SSLCertVerificationError(1, "cert verify failed")),
    ("interrupt", lambda: Interrupt("interrupt")),
    ("eagain", lambda: OSError(errno.EAGAIN, "try again")),
]
FAULT_IDX = {n: i for i, (n, _) in enumerate(FAULTS)}
# data faults at read steps
DATA_FAULTS = ["eof", "garbage", "longline"]

STEPS = ["none", "connect", "send_headers", "send_body", "read0", "read1", "read2", "read3", "sleep"]

BODY = b"0123456789"

RESP_KINDS = ["cl_keepalive", "cl_close", "redirect302", "retry503", "chunked", "close_delimited", "h204", "redirect302_gzip6",
              "retry503_gzip6", "retry503_after1"]


def _gz6(b):
    import gzip
    for _ in range(6):
        b = gzip.compress(b, mtime=0)
    return b


GZ6 = _gz6(BODY)            # a body under six stacked codings: whatever a decoder makes of it, the slot comes back


def wire(kind: int):
    """Response split into 4 segments: status line | headers | body part 1 | body part 2."""
    if kind == 0:
        return [b"HTTP/1.1 200 OK\r\n", b"Content-Length: 10\r\n\r\n", BODY[:4], BODY[4:]]
    if kind == 1:
        return [b"HTTP/1.1 200 OK\r\n", b"Content-Length: 10\r\nConnection: close\r\n\r\n", BODY[:4], BODY[4:]]
    if kind == 2:
        return [b"HTTP/1.1 302 Found\r\n", b"Location: /next\r\nContent-Length: 10\r\n\r\n", BODY[:4], BODY[4:]]
    if kind == 3:
        return [b"HTTP/1.1 503 Unavailable\r\n", b"Retry-After: 0\r\nContent-Length: 10\r\n\r\n", BODY[:4], BODY[4:]]
    if kind == 4:
        return [b"HTTP/1.1 200 OK\r\n", b"Transfer-Encoding: chunked\r\n\r\n", b"4\r\n0123\r\n", b"6\r\n456789\r\n0\r\n\r\n"]
    if kind == 5:
        return [b"HTTP/1.1 200 OK\r\n", b"X: y\r\n\r\n", BODY[:4], BODY[4:]]
    if kind == 9:
        return [b"HTTP/1.1 503 Unavailable\r\n", b"Retry-After: 1\r\nContent-Length: 10\r\n\r\n", BODY[:4], BODY[4:]]
    if kind in (7, 8):
        enc = b"Content-Encoding: gzip, gzip, gzip, gzip, gzip, gzip\r\nContent-Length: %d\r\n\r\n" % len(GZ6)
        if kind == 7:
            return [b"HTTP/1.1 302 Found\r\n", b"Location: /next\r\n" + enc, GZ6[:40], GZ6[40:]]
        return [b"HTTP/1.1 503 Unavailable\r\n", b"Retry-After: 0\r\n" + enc, GZ6[:40], GZ6[40:]]
    return [b"HTTP/1.1 204 No Content\r\n", b"X: y\r\n\r\n", b"", b""]


class Peer(N.BaseHandler):
    """One scripted fault at one I/O step of the *new* activity; idle connections that were
    marked dropped report EOF pending."""

    def __init__(self, step, fault, dfault, resp_kind):
        self.step = step
        self.fault = fault          # index into FAULTS or -1
        self.dfault = dfault        # index into DATA_FAULTS or -1
        self.resp_kind = resp_kind
        self.armed = False          # faults apply only once the pre-state is built
        self.fired = False
        self.dropped = set()        # sock ids whose peer closed while idle
        self.seg = {}               # sock id -> next segment index
        self.req_sends = {}         # sock id -> sends since armed
        self.raised = None

    def _raise(self):
        self.fired = True
        e = FAULTS[self.fault][1]()
        self.raised = e
        raise e

    def on_connect(self, net, sock):
        if self.armed and self.step == 1 and not self.fired:
            self._raise()

    def on_send(self, sock, data):
        if not self.armed:
            return
        n = self.req_sends.get(sock.id, 0) + 1
        self.req_sends[sock.id] = n
        if not self.fired and ((self.step == 2 and n == 1) or (self.step == 3 and n == 2)):
            self._raise()

    def readable(self, sock):
        return sock.id in self.dropped

    def on_read(self, sock):
        if sock.id in self.dropped:
            return b""
        k = self.seg.get(sock.id, 0)
        if self.armed and not self.fired and self.step >= 4 and k == self.step - 4:
            if self.fault >= 0:
                self._raise()
            self.fired = True
            d = DATA_FAULTS[self.dfault]
            if d == "eof":
                self.dropped.add(sock.id)
                return b""
            if d == "garbage":
                self.seg[sock.id] = 99
                return b"\x00\x01garbage\r\n\r\n" if k == 0 else b"\r\nZZZ\x00:\r\n\r\n\r\n"
            if d == "longline":
                self.seg[sock.id] = 99
                return b"X" * 70000 + b"\r\n"
        segs = wire(self.resp_kind)
        while k < len(segs) and not segs[k]:
            k += 1
        if k >= len(segs):
            # nothing more: a keep-alive peer would block; model as EOF (close-delimited bodies end here)
            self.dropped.add(sock.id)
            return b""
        self.seg[sock.id] = k + 1
        return segs[k]


SENTINEL = object()


class CutPool(HTTPConnectionPool):
    _depth = 0
    reentry = None
    reentry_inv = None
    _inv = None

    def urlopen(self, *a, **kw):
        if self._depth >= 1:
            self.reentry = (a, kw)
            self.reentry_inv = self._inv()
            return SENTINEL
        self._depth += 1
        try:
            return super().urlopen(*a, **kw)
        finally:
            self._depth -= 1


def inv(pool, netw, leased, maxsize):
    """INV (block=True): qsize + leases == maxsize.  INV (block=False): a non-blocking pool hands out
    overflow connections beyond maxsize and discards what does not fit on return, so slots are conserved as
    maxsize - leases <= qsize <= maxsize (== maxsize when nobody holds anything).  Both: non-None entries
    pairwise distinct; every MemSock that is neither idle in the queue nor leased to another holder is closed."""
    q = list(pool.pool.queue)
    if pool.block:
        if len(q) + len(leased) != maxsize:
            return "slots %d + leases %d != maxsize %d" % (len(q), len(leased), maxsize)
    elif not (maxsize - len(leased) <= len(q) <= maxsize):
        return "slots %d outside [maxsize %d - leases %d, maxsize]" % (len(q), maxsize, len(leased))
    conns = [c for c in q if c is not None]
    for i in range(len(conns)):
        for j in range(i + 1, len(conns)):
            if conns[i] is conns[j]:
                return "connection twice in pool"
    ok_socks = [c.sock for c in conns if c.sock is not None] + [c.sock for c in leased]
    for s in netw.socks:
        if not s.closed and not any(s is o for o in ok_socks):
            return "socket %d open but neither idle in pool nor leased" % s.id
    for i in range(len(ok_socks)):
        for j in range(i + 1, len(ok_socks)):
            if ok_socks[i] is ok_socks[j]:
                return "one socket held by two connections"
    return None


def dispose(resp, mode, k):
    """All the ways a caller gets rid of a response."""
    if mode == 0:
        resp.read()
    elif mode == 1:
        resp.read(k)
        resp.release_conn()
    elif mode == 2:
        resp.release_conn()
    elif mode == 3:
        resp.drain_conn()
    elif mode == 4:
        resp.close()
    elif mode == 5:
        for _ in resp.stream(3):
            pass
    elif mode == 6:
        it = resp.stream(3)
        next(it, None)
        it.close()
        resp.release_conn()
    elif mode == 7:
        resp.read(k)
        resp.close()


def _step_body(maxsize, idle, leased_n, dropped_mask, block, preload, relmode, rkind, rtotal,
               fault, dfault, resp_kind, disp, k, method_post):
    step = P.step
    peer = Peer(step, fault, dfault, resp_kind)
    netw = N.install(peer)
    clock = E.install_clock()
    if step == 8:
        # the fault strikes inside Retry.sleep() (Retry-After / back-off wait between two attempts)
        def _sleep(sec, _peer=peer):
            if _peer.armed and not _peer.fired:
                _peer._raise()
        clock.sleep = _sleep
    try:
        pool = CutPool("h", 80, maxsize=maxsize, block=block)
        pool._inv = lambda: inv(pool, netw, leased, maxsize)
        # ---- pre-state built directly (not by history) ----
        while not pool.pool.empty():
            pool.pool.get_nowait()
        leased = []
        for _ in range(leased_n):
            c = pool._new_conn()
            c.connect()
            leased.append(c)
        idles = []
        for j in range(idle):
            c = pool._new_conn()
            c.connect()
            idles.append(c)
        for _ in range(maxsize - idle - leased_n):
            pool.pool.put(None)
        for j, c in enumerate(idles):
            pool.pool.put(c)
            if (dropped_mask >> j) & 1:
                peer.dropped.add(c.sock.id)
        pre = inv(pool, netw, leased, maxsize)
        if pre is not None:
            raise AssertionError("harness: pre-state violates INV: " + pre)
        open_before = netw.open_now
        netw.max_open = netw.open_now
        peer.armed = True
        # ---- one attempt ----
        retries = False if rkind == 0 else (0 if rkind == 1 else Retry(total=rtotal, status_forcelist=[503]))
        release = None if relmode == 0 else (relmode == 1)
        method = "POST" if method_post else "GET"
        body = b"abc" if method_post else None
        resp = None
        exc = None
        try:
            resp = pool.urlopen(method, "/x", body=body, retries=retries, preload_content=preload,
                                release_conn=release, pool_timeout=0.0)
        except Exception as e:
            exc = e
        except Interrupt as e:
            exc = e
        if peer.fired:
            mark("fault fired")
        if isinstance(peer.raised, Interrupt) and exc is not peer.raised:
            return _fail("an interrupt raised inside the library (step %s) never reached the caller: urlopen ended with %r / %r"
                         % (STEPS[P.step], resp, exc))
        if resp is SENTINEL:
            mark("re-entry")
            if pool.reentry_inv is not None:
                return _fail("INV broken at re-entry: " + pool.reentry_inv)
            resp = None
        # ---- what the caller may see ----
        if exc is not None and not _allowed_exc(exc, peer):
            import traceback
            return _fail("caller saw %r\n%s" % (exc, "".join(traceback.format_exception(exc))[-1800:]))
        if isinstance(exc, EmptyPoolError):
            mark("EmptyPoolError")
            if not (block and idle == 0 and maxsize - leased_n == 0):
                return _fail("EmptyPoolError although a slot was free")
        # ---- block=True bound ----
        if block and netw.max_open > maxsize:
            return _fail("block=True but %d sockets open at once (maxsize %d)" % (netw.max_open, maxsize))
        # ---- dispose of the response ----
        if resp is not None:
            mark("response returned")
            try:
                dispose(resp, disp, k)
            except Exception as e:
                if not _allowed_exc(e, peer):
                    return _fail("disposal raised %r" % (e,))
            except Interrupt as e:
                if e is not peer.raised:
                    return _fail("foreign interrupt")
        post = inv(pool, netw, leased, maxsize)
        if post is not None:
            # known findings: the disposed response still holds its connection (root cause), through the
            # specific call sites listed in known_findings.json
            if resp is not None and disp in (4, 7) and not _released(resp) and known("F7"):
                return True
            if (resp is not None and disp == 5 and preload and relmode == 2 and not _released(resp)
                    and known("F7b")):
                return True
            # A response that was released before its body was read to the end keeps the descriptor of a connection that
            # http.client has already closed (Connection: close / close-delimited) alive through its own file object —
            # real sockets behave the same (socket._io_refs).  The caller is done with the response: let go of it, then
            # the steady state is what the property speaks about.
            if resp is not None and _released(resp):
                exc = None
                resp = None
                import gc
                gc.collect()
                post = inv(pool, netw, leased, maxsize)
                if post is None:
                    mark("socket released with the response object")
                    return True
            return _fail("INV broken after the request: " + post)
        return True
    finally:
        N.uninstall()
        E.uninstall_clock()


def _released(resp):
    return getattr(resp, "_connection", None) is None


def _fail(msg):
    from kit import h
    h.INFO["why"] = msg
    return False


def _allowed_exc(e, peer):
    if isinstance(e, Interrupt):
        return e is peer.raised
    return isinstance(e, HTTPError)


def c01_step(maxsize: int, idle: int, leased_n: int, dropped_mask: int, block: bool, preload: bool,
             relmode: int, rkind: int, rtotal: int, fault: int, dfault: int, resp_kind: int, disp: int,
             k: int, method_post: bool) -> bool:
    """
    pre: 1 <= maxsize <= P.maxsize_max
    pre: 0 <= idle and 0 <= leased_n <= P.leased_max and idle + leased_n <= maxsize
    pre: 0 <= dropped_mask < 2 ** idle and dropped_mask <= P.dmask_max and block in P.blocks
    pre: relmode in P.relmodes and rkind in P.rkinds and 0 <= rtotal <= 1
    pre: fault == P.fault and dfault == P.dfault
    pre: resp_kind in P.resp_kinds
    pre: disp in P.disps
    pre: k in P.ks
    pre: method_post in P.posts
    post: _
    """
    return run(_step_body, maxsize, idle, leased_n, dropped_mask, block, preload, relmode, rkind, rtotal,
               fault, dfault, resp_kind, disp, k, method_post)



# ---- proxied and TLS pools (E1-enum) -------------------------------------------------------------------------------------------
# The same invariant for https pools and pools behind a proxy: direct https, forwarding http proxy, CONNECT tunnel through an
# http proxy, CONNECT tunnel through an https proxy (TLS-in-TLS), with a fault at one step of ONE attempt.

from kit import tls as TLS
from kit.h import decode_point
from urllib3 import ProxyManager
from urllib3.connectionpool import HTTPSConnectionPool
from urllib3.exceptions import SSLError as _SSLError, ProxyError as _ProxyError, MaxRetryError as _MaxRetryError

PTOPOS = ["https direct", "forwarding http proxy", "tunnel via http proxy", "tunnel via https proxy"]
PSTEPS = ["none", "connect", "proxy_tls", "connect_reply", "origin_tls", "send", "read_status", "mid_body"]
PKINDS = ["timeout", "reset", "eof", "garbage", "interrupt", "sslerror", "403"]


class PPeer(N.BaseHandler):
    def __init__(self, topo, step, kind):
        self.topo, self.step, self.kind = topo, step, kind
        self.state = {}
        self.fired = False
        self.raised = None

    def _exc(self):
        self.fired = True
        k = self.kind
        e = {"timeout": socket.timeout("timed out"), "reset": ConnectionResetError(errno.ECONNRESET, "reset"),
             "interrupt": Interrupt("interrupt"), "sslerror": ssl.SSLError(1, "[SSL] bad record mac")}.get(k)
        self.raised = e
        return e

    def on_connect(self, net, sock):
        if self.step == "connect" and not self.fired and self.kind in ("timeout", "reset", "interrupt"):
            raise self._exc()

    def _st(self, sock):
        return self.state.setdefault(sock.id, {"got": b"", "pos": 0, "queue": [], "eof": False})

    def on_send(self, sock, data):
        st = self._st(sock)
        st["got"] += data
        while True:
            buf = st["got"][st["pos"]:]
            end = buf.find(b"\r\n\r\n")
            if end < 0:
                break
            head = buf[:end]
            st["pos"] += end + 4
            if head.startswith(b"CONNECT ") and not getattr(sock, "tunnel_established", False):
                if self.step == "connect_reply" and not self.fired:
                    k = self.kind
                    if k in ("timeout", "reset", "interrupt", "sslerror"):
                        st["queue"].append(self._exc())
                    elif k == "eof":
                        self.fired = True
                        st["queue"].append(b"")
                    elif k == "garbage":
                        self.fired = True
                        st["queue"].extend([b"\x00\x01 nonsense\r\n\r\n", b""])
                    else:
                        self.fired = True
                        st["queue"].extend([b"HTTP/1.0 403 Forbidden\r\nContent-Length: 0\r\n\r\n", b""])
                    continue
                sock.tunnel_established = True
                sock.tunnel_target = None
                st["queue"].append(b"HTTP/1.0 200 OK\r\n\r\n")
                continue
            if self.step == "send" and not self.fired and self.kind in ("timeout", "reset", "interrupt", "sslerror"):
                raise self._exc()
            if self.step == "read_status" and not self.fired:
                k = self.kind
                if k in ("timeout", "reset", "interrupt", "sslerror"):
                    st["queue"].append(self._exc())
                elif k == "eof":
                    self.fired = True
                    st["queue"].append(b"")
                else:
                    self.fired = True
                    st["queue"].extend([b"\x00\x01 nonsense\r\n\r\n", b""])
                continue
            if self.step == "mid_body" and not self.fired:
                st["queue"].append(b"HTTP/1.1 200 OK\r\nContent-Length: 10\r\n\r\n0123")
                k = self.kind
                if k in ("timeout", "reset", "interrupt", "sslerror"):
                    st["queue"].append(self._exc())
                else:
                    self.fired = True
                    st["queue"].append(b"")
                continue
            st["queue"].append(b"HTTP/1.1 200 OK\r\nContent-Length: 10\r\n\r\n0123456789")

    def on_read(self, sock):
        st = self._st(sock)
        if st["eof"]:
            return b""
        if st["queue"]:
            x = st["queue"].pop(0)
            if isinstance(x, BaseException):
                st["eof"] = True
                self.thrown = x
                raise x
            if x == b"":
                st["eof"] = True
            return x
        return b""

    def readable(self, sock):
        st = self.state.get(sock.id)
        return bool(st and (st["queue"] or st["eof"]))


class _FaultyScript(TLS.Script):
    """TLS handshake faults: the proxy leg / the origin leg fails with the scripted exception."""

    def __init__(self, peer):
        TLS.Script.__init__(self, {}, TLS.Cert("default", (("DNS", "*"),)))
        self.peer = peer

    def cert_for(self, sock, server_hostname, tls_in_tls):
        p = self.peer
        base = sock
        while isinstance(base, TLS.TlsSock):
            base = base._inner
        tunnelled = getattr(base, "tunnel_established", False)
        leg = "origin_tls" if (tunnelled or p.topo == 0) else "proxy_tls"
        if p.step == leg and not p.fired and p.kind in ("timeout", "reset", "interrupt", "sslerror"):
            raise p._exc()
        if p.step == leg and not p.fired and p.kind == "eof":
            p.fired = True
            return TLS.Cert("unknown", (("DNS", "*"),))       # certificate verification failure
        return TLS.Script.cert_for(self, sock, server_hostname, tls_in_tls)


def proxied_dims(part):
    pts = []
    for step in PSTEPS:
        for kind in (PKINDS if step != "none" else ["timeout"]):
            pts.append((step, kind))
    return [pts, [1, 2], [True, False], [True, False], [0, 2, 4, 5, 1], [0, 1, 2]]


def _proxied_point(idx):
    (step, kind), maxsize, block, preload, disp, rkind = decode_point(idx, proxied_dims)
    return N._untraced(_proxied)(P.topo, step, kind, maxsize, block, preload, disp, rkind)


def _proxied(topo, step, kind, maxsize, block, preload, disp, rkind):
    peer = PPeer(topo, step, kind)
    netw = N.install(peer)
    E.install_clock()
    nameok = TLS._name_ok
    TLS._name_ok = lambda c, h, cn: True
    TLS.install(_FaultyScript(peer), "ssl", True)
    try:
        retries = False if rkind == 0 else (0 if rkind == 1 else Retry(total=1, backoff_factor=0))
        kw = dict(maxsize=maxsize, block=block)
        if topo == 0:
            pool = HTTPSConnectionPool("h", 443, **kw)
            call = lambda: pool.urlopen("GET", "/x", retries=retries, preload_content=preload)
            pools = lambda: [pool]
        else:
            pm = ProxyManager(("https" if topo == 3 else "http") + "://proxy.example:3128", **kw)
            url = "http://h/x" if topo == 1 else "https://h/x"
            call = lambda: pm.urlopen("GET", url, retries=retries, preload_content=preload, redirect=False)
            pools = lambda: list(pm.pools._container.values())
        resp = None
        exc = None
        try:
            resp = call()
        except Exception as e:
            exc = e
        except Interrupt as e:
            exc = e
        if peer.fired:
            mark("fault fired")
        if isinstance(getattr(peer, "thrown", None), Interrupt) and exc is not peer.thrown:
            return _fail("an interrupt raised inside the library never reached the caller: ended with %r / %r" % (resp, exc))
        if exc is not None:
            if isinstance(exc, Interrupt):
                if exc is not peer.raised:
                    return _fail("foreign interrupt")
            elif not isinstance(exc, HTTPError):
                import traceback
                return _fail("%s, fault %s at %s: caller saw a raw %r\n%s" % (PTOPOS[topo], kind, step, exc,
                                                                           "".join(traceback.format_exception(exc))[-900:]))
        if block and netw.max_open > maxsize:
            return _fail("block=True but %d sockets open at once" % netw.max_open)
        if resp is not None:
            try:
                dispose(resp, disp, 3)
            except Exception as e:
                if not isinstance(e, HTTPError):
                    return _fail("disposal raised %r" % (e,))
            except Interrupt as e:
                if e is not peer.raised:
                    return _fail("foreign interrupt")
        f7 = resp is not None and disp == 4 and not _released(resp)
        resp = None
        exc = None
        import gc
        gc.collect()
        for pl in pools():
            why = inv(pl, netw, [], maxsize)
            if why is not None:
                # sockets of other pools of the manager are not this pool's: judge sockets globally below
                if "socket" in why:
                    continue
                if f7 and known("F7"):
                    return True
                return _fail("%s, fault %s at %s: INV broken: %s" % (PTOPOS[topo], kind, step, why))
        idle = []
        for pl in pools():
            q = list(pl.pool.queue) if pl.pool is not None else []
            idle.extend(c.sock for c in q if c is not None and c.sock is not None)

        def base_of(s):
            while isinstance(s, TLS.TlsSock):
                s = s._inner
            return s
        idle_bases = [base_of(s) for s in idle]
        for s in netw.socks:
            if not s.closed and not any(s is b for b in idle_bases):
                if f7 and known("F7"):
                    return True
                return _fail("%s, fault %s at %s (preload=%s, disposal %d): socket %d is open but not idle in any pool"
                             % (PTOPOS[topo], kind, step, preload, disp, s.id))
        return True
    finally:
        TLS._name_ok = nameok
        TLS.uninstall()
        N.uninstall()
        E.uninstall_clock()


def c01_proxied(idx: int) -> bool:
    """
    pre: 0 <= idx < P.n
    post: _
    """
    return run(_proxied_point, idx)


DIMS = {"c01_proxied": proxied_dims}


def JOBS(tier):
    jobs = []
    quick = tier == "quick"
    t = 150 if quick else 420
    allk = list(range(len(RESP_KINDS)))
    alld = list(range(8))

    def job(step, fault, dfault, resp_kinds, disps, *, full=False, rkinds=(2,), relmodes=(0, 1, 2), ks=(3,),
            posts=(False,), blocks=None):
        if blocks is None:
            blocks = (False, True) if (full or not quick) else (True,)
        jobs.append({"func": "c01_step", "timeout": t, "path_timeout": 60,
                     "part": {"step": step, "fault": fault, "dfault": dfault, "resp_kinds": list(resp_kinds),
                              "disps": list(disps), "maxsize_max": (2 if quick else 3) if full else (1 if quick else 2),
                              "leased_max": 3 if full else (0 if quick else 1),
                              "dmask_max": 7 if (full or not quick) else 0, "blocks": list(blocks),
                              "rkinds": list(rkinds), "relmodes": list(relmodes), "ks": list(ks),
                              "posts": list(posts)}})
    F = FAULT_IDX
    swallowed = (F["epipe"], F["reset"], F["eprototype"])
    # (B1) no fault: every response kind x every disposal, small pre-states
    for rk in allk:
        if rk == 9:
            continue          # only used with the sleep step below
        if rk in (7, 8):
            # stacked codings only matter where urlopen itself drains the response (followed 302 / retried 503)
            job(0, -1, -1, [rk], [0, 4], rkinds=(2,), relmodes=(0, 2), ks=(3,))
            continue
        for pre in (((0, 1, 2),) if quick else ((0, 1), (2,))):
            job(0, -1, -1, [rk], alld, ks=(0, 3) if quick else (0, 3, 10, 11), relmodes=pre,
                rkinds=(2,) if rk in (2, 3, 7, 8) else (1,))
    # (B2) connect / send faults: every exception kind; swallowed ones (EPIPE...) go on to a response
    connect_kinds = [F[n] for n in ("timeout", "refused", "gaierror", "sslerror", "interrupt", "eio")]
    send_kinds = [F[n] for n in ("timeout", "epipe", "reset", "eprototype", "eio", "sslerror", "interrupt")]
    for f in range(len(FAULTS)):
        for step in (1, 2, 3):
            if quick and f not in (connect_kinds if step == 1 else send_kinds):
                continue
            goes_on = step in (2, 3) and f in swallowed
            job(step, f, -1, [0], [0, 4] if goes_on else [0], rkinds=(2,) if goes_on else (0, 1, 2),
                relmodes=(0, 2) if goes_on else (0,), posts=(True,) if step == 3 else (False,))
    # (B3) receive faults at 4 positions: before status line, inside headers, before body, mid-body
    for s in (4, 5, 6, 7):
        late = s >= 6
        kinds_exc = [[0], [4]] if late else [[0]]
        kinds_data = [[0], [4], [5]] if late else [[0]]
        for f in (F["timeout"], F["reset"], F["sslerror"], F["interrupt"], F["eagain"], F["eio"]):
            for rks in kinds_exc:
                job(s, f, -1, rks, [0, 1, 4, 5] if late else [0], rkinds=(2,) if late else (0, 2),
                    relmodes=(0, 2) if late else (0, 1, 2))
        for d in range(len(DATA_FAULTS)):
            if late and d == 2:
                continue
            for rks in kinds_data:
                job(s, -1, d, rks, [0, 1, 4, 5] if late else [0], rkinds=(2,) if late else (0, 2),
                    relmodes=(0, 2) if late else (0, 1, 2))
    # (B4) faults while urlopen DRAINS the body of a response it is about to follow (302) or retry (503): errors are absorbed by
    #      the drain, interrupts are not; either way the invariant is re-established
    for s in (6, 7):
        for rk in (2, 3):
            for f in (F["timeout"], F["reset"], F["interrupt"]):
                job(s, f, -1, [rk], [0], rkinds=(2,), relmodes=(0, 2))
            job(s, -1, 0, [rk], [0], rkinds=(2,), relmodes=(0, 2))
    # (B5) an interrupt inside the wait between two attempts: the response being retried has been dealt with by then
    job(8, F["interrupt"], -1, [9], [0], rkinds=(2,), relmodes=(0, 1, 2))     # (time.sleep raises nothing else)
    # (A) queue mechanics: all pre-states (idle/leased/dropped, maxsize<=2|3) x block x preload x release
    for (step, f, d, rk, disps) in [
        (0, -1, -1, 0, [0]), (0, -1, -1, 0, [2]), (0, -1, -1, 1, [0, 5]), (0, -1, -1, 2, [0]), (0, -1, -1, 3, [0]),
        (1, F["refused"], -1, 0, [0]), (1, F["interrupt"], -1, 0, [0]), (2, F["reset"], -1, 0, [0]),
        (4, F["timeout"], -1, 0, [0]), (4, -1, 0, 0, [0]), (6, -1, 0, 0, [0, 1]), (7, F["interrupt"], -1, 0, [0, 5]),
    ]:
        job(step, f, d, [rk], disps, full=True, rkinds=(2,) if rk in (2, 3) or step else (1,),
            relmodes=(0,) if quick else (0, 1, 2))
    for topo in range(4):
        jobs.append({"func": "c01_proxied", "timeout": max(t, 300), "path_timeout": 60, "samples": 1, "part": {"topo": topo}})
    return jobs


EVIDENCE = {
    "bounds": {"drain": "faults {timeout, reset, interrupt, EOF} while urlopen drains a 302/503 body it will follow/retry; 302/503 under six "
                        "stacked gzip codings; interrupt inside Retry.sleep(); an interrupt raised inside the library reaches the caller",
               "quick": "proxied/TLS pools (c01_proxied): https direct, forwarding http proxy, CONNECT tunnel via http and via https proxy x fault "
                        "{timeout, reset, EOF/cert failure, garbage, interrupt, SSLError, 403} at {connect, proxy TLS, CONNECT reply, origin TLS, "
                        "send, status line, mid-body} x maxsize 1-2 x block x preload x 5 disposals x 3 retry settings, every point; "
                        "direct pools: one attempt (re-entry cut) from a symbolic valid pool state; families: (B) block=True pool of maxsize 1 "
                        "with 0/1 idle connection x preload x release_conn mode x disposal mode, for: no fault x 7 response kinds x "
                        "8 disposals; 6 exception kinds at connect, 7 at send-headers/send-body; 6 exception kinds + 3 data faults "
                        "at 4 receive positions; (A) every pool state with maxsize<=2 (idle, leased, dropped mask, block) for 12 "
                        "scenarios with release_conn=None",
               "thorough": "(B) maxsize<=2, block both, dropped idle connections, leased holders, all 11 exception kinds at every "
                           "step, read amounts {0,3,10,11}; (A) maxsize<=3, all release modes; 6x path budget"},
    "outside": ["faults inside queue.LifoQueue", "asynchronous exceptions between two pure-Python statements",
                "more than one fault per attempt (covered inductively: each attempt restarts from INV)",
                "more than one fault per attempt on proxied pools"],
    "stubs": ["urllib3.util.connection.create_connection -> MemSock", "urllib3.connection.wait_for_read -> MemSock.readable",
              "time module inside util.timeout/util.retry -> constant clock", "logging disabled",
              "http.client._parse_header_lines runs untraced (concrete bytes)"],
    "assumptions": ["re-entrant urlopen cut: INV at re-entry + INV after each attempt gives the invariant for chains of any length",
                    "Interrupt(BaseException) stands for KeyboardInterrupt",
                    "non-blocking pools conserve slots as maxsize - holders <= qsize <= maxsize"],
}
