"""C06 — credentials are never forwarded to a different origin on redirect.

c06_strip    : one redirect hop (re-entrant urlopen cut) through PoolManager / ProxyManager.  Symbolic: which sensitive header,
               its letter-casing (lower/UPPER/Title/one letter flipped at a symbolic position), the mapping type that carries it
               (dict, HTTPHeaderDict with the field repeated, manager-level defaults, dict with two spellings), the policy's
               remove_headers_on_redirect (default / custom / empty / mixed case / plain int policy), the origin delta of the
               Location, the 3xx code.  Asserts on the headers of the re-entrant call: a header is present iff it was present
               and not (cross-origin and lower(name) in the remove set); everything else identical and in order; the Retry object
               handed on keeps the same remove set (so every later hop strips the same way: inductive).
c06_chain    : closed 2-hop chains with a logging peer (A -> B -> C, A -> A -> B): what B and C actually receive.
c06_samehost : is_same_host against reference origin equality (scheme, lower-cased host, port with scheme default).
c06_pool     : a single-host pool refuses a cross-host redirect with HostChangedError; the new host is never dialled.
"""
from __future__ import annotations

from kit.h import P, run, mark, known, decode_point
from kit import net as N
from kit import env as E

from urllib3 import PoolManager, ProxyManager, HTTPConnectionPool, HTTPSConnectionPool
from urllib3._collections import HTTPHeaderDict
from urllib3.exceptions import HTTPError, HostChangedError, MaxRetryError
from urllib3.util.retry import Retry

from harness.c05 import CutManager, CutProxyManager, Peer, SENTINEL, requests_seen, STATUSES

SENSITIVE = ["Authorization", "Cookie", "Proxy-Authorization"]
URL0 = "http://a/dir/page"
# (Location, crosses origin?) relative to http://a:80
TARGETS = [
    ("http://a/next", False),
    ("http://b/next", True),
    ("http://a:81/next", True),
    ("https://a/next", True),
    ("//b/x", True),
    ("/abs", False),
    ("rel", False),
    ("http://A:80/next", False),
    ("HTTP://a/next", False),
    ("http://a:8080/", True),
    ("https://a:80/", True),
    ("//a:80/x", False),
    ("http://a.b/", True),
    ("http://ab/", True),
]


def _fail(msg):
    from kit import h
    h.INFO["why"] = msg
    return False


def spell(name, cv, pos):
    if cv == 0:
        return name.lower()
    if cv == 1:
        return name.upper()
    if cv == 2:
        return name
    low = name.lower()
    pos = pos % len(low)
    ch = low[pos]
    return low[:pos] + (ch.upper() if ch.isalpha() else ch) + low[pos + 1:]


def remove_set(rk):
    """(retries argument, reference lower-cased remove set)"""
    default = {"authorization", "cookie", "proxy-authorization"}
    if rk == 0:
        return None, default
    if rk == 1:
        return Retry(remove_headers_on_redirect=["X-Api-Secret"]), {"x-api-secret"}
    if rk == 2:
        return Retry(remove_headers_on_redirect=[]), set()
    if rk == 3:
        return Retry(remove_headers_on_redirect=["x-API-secret", "COOKIE"]), {"x-api-secret", "cookie"}
    if rk == 4:
        return 5, default
    return Retry(total=4, redirect=2), default


def _strip_body(front, si, cv, pos, container, rk, ti, status_i, extra):
    name = spell(SENSITIVE[si], cv, pos)
    loc, cross = TARGETS[ti]
    status = STATUSES[status_i]
    peer = Peer(status, loc)
    netw = N.install(peer)
    E.install_clock()
    try:
        retries, rset = remove_set(rk)
        other = [("X-Api-Secret", "s3"), ("Accept", "a/b"), ("X-Other", "o")]
        pairs = [other[0], (name, "cred"), other[1]]
        if extra:
            pairs.append(other[2])
        ctor = {}
        req = {}
        if container == 0:
            req["headers"] = dict(pairs)
        elif container == 1:
            h = HTTPHeaderDict()
            for k, v in pairs:
                h.add(k, v)
            h.add(name, "cred2")          # repeated field
            req["headers"] = h
        elif container == 2:
            ctor["headers"] = dict(pairs)  # manager-level defaults, request passes none
        else:
            d = dict(pairs)
            d[name.swapcase()] = "cred3"   # two spellings of the same field in a plain dict
            req["headers"] = d
        if retries is not None:
            req["retries"] = retries
        fe = CutManager(**ctor) if front == 0 else CutProxyManager("http://proxy:3128", **ctor)
        before = list((req.get("headers") or ctor.get("headers")).items())
        exc = None
        try:
            resp = fe.urlopen("GET", URL0, **req)
        except HTTPError as e:
            exc = e
        if exc is not None or fe.reentry is None:
            return _fail("redirect %d -> %r not followed: %r" % (status, loc, exc))
        m2, url2, red2, kw2 = fe.reentry
        h2 = kw2.get("headers")
        if h2 is None:
            return _fail("re-entrant call without headers")
        after = list(h2.items())
        after_l = [(str(k).lower(), v) for k, v in after]
        is303 = status == 303
        for k, v in before:
            kl = k.lower()
            must_go = cross and kl in rset
            present = (kl, v) in after_l
            if must_go and any(a == kl for a, _ in after_l):
                return _fail("%r (in remove set %r) still present after cross-origin redirect to %r: %r"
                             % (k, sorted(rset), loc, after))
            if not must_go and not present and front == 0 and not (is303 and kl.startswith("content-")):
                return _fail("%r dropped although %s: %r" % (k, "same origin" if not cross else "not in the remove set", after))
        # nothing new
        for kl, v in after_l:
            if front == 1 and kl in ("host", "accept"):
                continue        # a forwarding proxy request gets Host/Accept from ProxyManager itself
            if front == 1:
                # ProxyManager copies the mapping into a plain dict (repeated fields are comma-joined): names only
                if not any(kl == b.lower() for b, bv in before):
                    return _fail("header %r appeared from nowhere" % (kl,))
                continue
            if not any(kl == b.lower() and v == bv for b, bv in before):
                return _fail("header %r=%r appeared from nowhere" % (kl, v))
        # order of the surviving fields (a field = case-insensitive name; two spellings of one field may be merged)
        def fields(seq):
            out = []
            for k, _ in seq:
                if k.lower() not in out and not (front == 1 and k.lower() in ("host", "accept")):
                    out.append(k.lower())
            return out
        fa = fields(after)
        fb = [k for k in fields(before) if k in fa]
        if fa != fb:
            return _fail("order of fields changed: %r -> %r" % (before, after))
        r2 = kw2.get("retries")
        if not isinstance(r2, Retry) or set(r2.remove_headers_on_redirect) != rset:
            return _fail("policy handed to the next hop has remove set %r, expected %r"
                         % (getattr(r2, "remove_headers_on_redirect", None), sorted(rset)))
        # the caller's mapping is never edited
        if list((req.get("headers") or ctor.get("headers")).items()) != before:
            return _fail("caller's header mapping was modified")
        mark("cross" if cross else "same")
        return True
    finally:
        N.uninstall()
        E.uninstall_clock()


def strip_dims(part):
    names = [(si, cv, pos) for si in range(3) for cv in range(4) for pos in (range(part["maxpos"]) if cv == 3 else [0])]
    return [names, part["containers"], part["rks"], part["targets"], part["statuses"], [True] if part["fix_extra"] else [True, False]]


def _strip_point(idx):
    (si, cv, pos), container, rk, ti, status_i, extra = decode_point(idx, strip_dims)
    return N._untraced(_strip_body)(P.front, si, cv, pos, container, rk, ti, status_i, extra)


def c06_strip(idx: int) -> bool:
    """
    pre: 0 <= idx < P.n
    post: _
    """
    return run(_strip_point, idx)


# ---- closed chains ---------------------------------------------------------------------------------------------------

class RoutePeer(N.BaseHandler):
    """Answers by (host, path): route maps 'host/path' -> (status, Location) ; anything else 200."""

    def __init__(self, route):
        self.route = route
        self.state = {}
        self.log = []          # (dialled host, port, request dict)

    def on_send(self, sock, data):
        st = self.state.setdefault(sock.id, {"got": b"", "answered": 0})
        st["got"] += data

    def on_read(self, sock):
        st = self.state.setdefault(sock.id, {"got": b"", "answered": 0})
        reqs, rest = N.parse_requests(st["got"])
        if len(reqs) > st["answered"]:
            r = reqs[st["answered"]]
            st["answered"] += 1
            self.log.append((sock.address[0], sock.address[1], r))
            key = "%s%s" % (sock.address[0], r["target"].decode())
            if key in self.route:
                status, loc = self.route[key]
                return N.response_bytes(status, "X", headers=[("Location", loc)], body=b"")
            return N.response_bytes(200, "OK", body=b"ok")
        return b""


CHAINS = [
    # A -> B -> C
    ({"a/0": (302, "http://b/1"), "b/1": (302, "http://c/2")}, ["a", "b", "c"]),
    # A -> A (same origin) -> B
    ({"a/0": (302, "/1"), "a/1": (307, "http://b/2")}, ["a", "a", "b"]),
    # A -> B -> back to A
    ({"a/0": (301, "http://b/1"), "b/1": (302, "http://a/2")}, ["a", "b", "a"]),
    # A -> B with relative second hop on B
    ({"a/0": (308, "//b/1"), "b/1": (302, "2")}, ["a", "b", "b"]),
]


def _chain_body(ci, si, cv, container, rk, only_creds):
    route, hosts = CHAINS[ci]
    name = spell(SENSITIVE[si], cv, 3)
    peer = RoutePeer(route)
    N.install(peer)
    E.install_clock()
    try:
        retries, rset = remove_set(rk)
        pairs = [(name, "cred")] if only_creds else [(name, "cred"), ("X-Api-Secret", "s3"), ("X-Other", "o")]
        ctor = {}
        req = {}
        if container == 2:
            ctor["headers"] = dict(pairs)
        elif container == 4:
            # manager defaults carry credentials AND the request carries only a sensitive header of its own
            ctor["headers"] = {"Authorization": "default-cred", "X-Default": "d"}
            req["headers"] = dict(pairs)
        elif container == 1:
            h = HTTPHeaderDict()
            for k, v in pairs:
                h.add(k, v)
            req["headers"] = h
        else:
            req["headers"] = dict(pairs)
        if retries is not None:
            req["retries"] = retries
        pm = PoolManager(**ctor)
        resp = pm.urlopen("GET", "http://a/0", **req)
        if resp.status != 200 or len(peer.log) != 3:
            return _fail("chain did not complete: %d requests" % len(peer.log))
        crossed = False
        for i, (host, port, r) in enumerate(peer.log):
            if host != hosts[i]:
                return _fail("request %d went to %r, expected %r" % (i, host, hosts[i]))
            if i > 0 and hosts[i] != hosts[i - 1]:
                crossed = True
            names = [n.decode().lower() for n, v in r["headers"]]
            for kl in rset:
                if crossed and kl in names:
                    return _fail("request %d to %r carries %r after the chain crossed origins (remove set %r): %r"
                                 % (i, host, kl, sorted(rset), r["headers"]))
            for k, v in pairs:
                if k.lower() not in rset and k.lower() not in names:
                    return _fail("request %d lost %r (not in the remove set)" % (i, k))
            if not crossed:
                for k, v in pairs:
                    if k.lower() not in names:
                        return _fail("request %d (same origin so far) lost %r" % (i, k))
        mark("chain %d" % ci)
        return True
    finally:
        N.uninstall()
        E.uninstall_clock()


def chain_dims(part):
    return [part["chains"], [0, 1, 2], [0, 1, 2, 3], part["containers"], part["rks"], [True, False]]


def _chain_point(idx):
    return N._untraced(_chain_body)(*decode_point(idx, chain_dims))


def c06_chain(idx: int) -> bool:
    """
    pre: 0 <= idx < P.n
    post: _
    """
    return run(_chain_point, idx)


# ---- origin equality ---------------------------------------------------------------------------------------------------

HOSTS = ["a", "A", "b", "a.b", "ab", "[::1]", "[::2]", "1.2.3.4"]
PORTS2 = [81, 80, 443, 8080, 1, 65535]      # rendered into the URL text (the pool's own port stays a symbolic int)
SCHEMES = ["http", "https", "HTTP"]


def _samehost_body(pool_https, h1, p1kind, p1, scheme_i, h2, p2kind, p2, relative):
    host1 = HOSTS[h1]
    host2 = HOSTS[h2]
    scheme2 = SCHEMES[scheme_i]
    port1 = None if p1kind == 0 else ((443 if pool_https else 80) if p1kind == 1 else p1)
    cls = HTTPSConnectionPool if pool_https else HTTPConnectionPool
    pool = cls(host1.strip("[]") if False else host1, port=port1)
    if relative:
        got = pool.is_same_host("/x")
        return got is True or _fail("relative URL not same host")
    p2 = PORTS2[p2]
    port2txt = "" if p2kind == 0 else (":%d" % ((443 if scheme2.lower() == "https" else 80) if p2kind == 1 else p2))
    url = "%s://%s%s/x" % (scheme2, host2, port2txt)
    got = pool.is_same_host(url)
    d1 = 443 if pool_https else 80
    d2 = 443 if scheme2.lower() == "https" else 80
    e1 = d1 if port1 is None else port1
    e2 = d2 if p2kind == 0 else (d2 if p2kind == 1 else p2)
    want = (("https" if pool_https else "http") == scheme2.lower()) and host1.lower() == host2.lower() and e1 == e2
    if got != want:
        return _fail("pool %s://%s:%r is_same_host(%r) = %r, reference says %r" % ("https" if pool_https else "http", host1, port1, url, got, want))
    mark("same" if want else "different")
    return True


def c06_samehost(pool_https: bool, h1: int, p1kind: int, p1: int, scheme_i: int, h2: int, p2kind: int, p2: int,
                 relative: bool) -> bool:
    """
    pre: 0 <= h1 < len(HOSTS) and 0 <= h2 < len(HOSTS) and h1 in P.h1s and 0 <= scheme_i < 3
    pre: 0 <= p1kind <= 2 and 0 <= p2kind <= 2 and 1 <= p1 <= 65535 and 0 <= p2 < len(PORTS2)
    pre: (p1kind == 2 or p1 == 1) and (p2kind == 2 or p2 == 0)
    post: _
    """
    return run(_samehost_body, pool_https, h1, p1kind, p1, scheme_i, h2, p2kind, p2, relative)


def _pool_body(ti, status_i, assert_same):
    loc, cross = TARGETS[ti]
    status = STATUSES[status_i]
    peer = Peer(status, loc)
    netw = N.install(peer)
    E.install_clock()
    try:
        pool = HTTPConnectionPool("a", 80)
        exc = None
        resp = None
        try:
            resp = pool.urlopen("GET", "/dir/page", headers={"Authorization": "cred"}, retries=Retry(redirect=1),
                                assert_same_host=assert_same)
        except HTTPError as e:
            exc = e
        hosts = [s.address[0] for s in netw.socks]
        if any(hh != "a" for hh in hosts):
            return _fail("single-host pool dialled %r" % hosts)
        is_abs = "//" in loc
        if cross and is_abs and not loc.startswith("//") and assert_same and status in (301, 302, 303, 307, 308):
            if not isinstance(exc, HostChangedError):
                return _fail("cross-host redirect to %r: expected HostChangedError, got %r / %r" % (loc, resp, exc))
            if len(requests_seen(netw, peer)) != 1:
                return _fail("a request was sent after the host changed")
            mark("HostChangedError")
        return True
    finally:
        N.uninstall()
        E.uninstall_clock()


def pool_dims(part):
    return [list(range(len(TARGETS))), [0, 1, 2, 3, 4], [True, False]]


def _pool_point(idx):
    return N._untraced(_pool_body)(*decode_point(idx, pool_dims))


def c06_pool(idx: int) -> bool:
    """
    pre: 0 <= idx < P.n
    post: _
    """
    return run(_pool_point, idx)


DIMS = {"c06_strip": strip_dims, "c06_chain": chain_dims, "c06_pool": pool_dims}


def JOBS(tier):
    quick = tier == "quick"
    t = 170 if quick else 900
    jobs = []
    nt = len(TARGETS)
    for front in (0, 1):
        for container in (0, 1, 2, 3):
            jobs.append({"func": "c06_strip", "timeout": t, "path_timeout": 60, "samples": 1,
                         "part": {"front": front, "containers": [container], "rks": list(range(6)), "targets": list(range(nt)),
                                  "maxpos": 3 if quick else 19, "fix_extra": quick, "statuses": [1, 2] if quick else [0, 1, 2, 3, 4]}})
    for ci in range(len(CHAINS)):
        jobs.append({"func": "c06_chain", "timeout": t, "path_timeout": 60, "samples": 1,
                     "part": {"chains": [ci], "containers": [0, 1, 2, 4], "rks": [0, 1, 2, 3, 4, 5]}})
    for h1 in range(len(HOSTS)):
        jobs.append({"func": "c06_samehost", "timeout": t, "part": {"h1s": [h1]}})
    jobs.append({"func": "c06_pool", "timeout": t, "part": {}})
    return jobs


EVIDENCE = {
    "bounds": {"quick": "one hop (re-entry cut): 3 sensitive names x 4 casing families (flipped letter at position 0-2; every position in thorough) x 4 "
                        "mapping types x 6 policies (default, custom, empty, mixed-case, plain int, Retry with budgets) x 14 origin deltas "
                        "x {302,303} via PoolManager and ProxyManager; 4 closed 2-hop chains x 4 mapping types x 3 policies with "
                        "the peer's own log; is_same_host: 8x8 host spellings x 3 schemes x pool port {absent, default, ANY symbolic int 1..65535} x URL port {absent, default, 6 values}; single-host pool: 14 targets x 5 statuses",
               "thorough": "14 origin deltas, 5 statuses, all policies and mapping types through both managers"},
    "outside": ["free header names (hashing pins them): names come from the three sensitive ones + fixed others", "chains > 2 hops (inductive: the "
                "re-entrant call's headers and policy are checked)"],
    "stubs": ["create_connection -> MemSock", "clock constant", "logging disabled"],
    "assumptions": ["through a forwarding proxy every redirect is treated as cross-origin by urllib3 (over-stripping is allowed by the property)"],
}
