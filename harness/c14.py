"""C14 — URL parsing is total, canonical, and agrees with RFC 3986 on what the host is.

LEMMAS (E2, strings of ANY length, on the live compiled patterns): totality of _URI_RE, authority group excludes
  / ? # \\, host group shape, port group digits, IPv4/IPv6 grammar inclusions, _TARGET_RE groups, zone id.
c14_char      (E1): _encode_invalid_chars on one symbolic code point, each allowed set, both percent situations.
c14_template  (E1): real parse_url on a skeleton with one symbolic hole over a delimiter-heavy alphabet; totality,
                    normal form, idempotence, agreement with an independent RFC 3986 reading of the authority.
c14_port      (E1): port digit strings (leading zeros, overflow).
c14_dotseg    (E1): _remove_path_dot_segments against RFC 3986 5.2.4 on symbolic segment lists.
"""
from __future__ import annotations

import re

from kit.h import P, run, mark, known, concretize, decode_point
import urllib3.util.url as U
from urllib3.util.url import parse_url, Url, _encode_invalid_chars, _remove_path_dot_segments
from urllib3.exceptions import LocationParseError

ALPHABET = "/\\?#@:%[].aA0 \n"

UNRESERVED = "ABCDEFGHIJKLMNOPQRSTUVWXYZabcdefghijklmnopqrstuvwxyz0123456789._-~"
SUB_DELIMS = "!$&'()*+,;="
USERINFO_OK = UNRESERVED + SUB_DELIMS + ":"
PATH_OK = USERINFO_OK + "@/"
QUERY_OK = PATH_OK + "?"
HEXU = "0123456789ABCDEF"


def _fail(msg):
    from kit import h
    h.INFO["why"] = msg
    return False


TEMPLATES = {
    "whole": "{X}",
    "scheme": "{X}://h/",
    "authority": "http://{X}",
    "userinfo": "http://{X}@h/",
    "host_after_at": "http://u@{X}",
    "bracket": "http://[{X}]/",
    "zone": "http://[::1%{X}]/",
    "path": "http://h/{X}",
    "dotpath": "http://h/a/{X}/../b",
    "query": "http://h/?{X}",
    "fragment": "http://h/#{X}",
    "schemeless": "//{X}",
    "hostport": "h{X}",
    "https_auth": "HTTPS://{X}/p",
}


def component_ok(s, allowed):
    """Every character is in `allowed` or part of %HH with upper-case hex."""
    i = 0
    n = len(s)
    while i < n:
        c = s[i]
        if c == "%":
            if i + 2 < n + 0 and i + 2 <= n - 1 + 0 and s[i + 1] in HEXU and s[i + 2] in HEXU:
                i += 3
                continue
            return False
        if c not in allowed:
            return False
        i += 1
    return True


def ref_authority(url):
    """Independent RFC 3986 reading: returns (userinfo, host, port_text) or None when there is no authority.
    The authority starts after '<scheme>://' (or a leading '//', or at 0 for scheme-less input that urllib3 treats
    as 'host...' form) and ends at the first '/', '?', '#' or backslash; the host follows the last '@'."""
    # urllib3's documented 'host:port' shorthand: a dotted first label is a host name, never a scheme
    m = re.match(r"^[a-zA-Z][a-zA-Z0-9+\-]*:", url)
    rest = url
    if m:
        rest = url[m.end():]
    if rest.startswith("//"):
        rest = rest[2:]
    elif m:
        return None            # scheme but no '//' : no authority
    else:
        # no scheme, no '//' : urllib3 documents 'host[:port]/path' shorthand unless it starts with '/'
        if url.startswith("/"):
            return None
    end = len(rest)
    for ch in "/?#\\":
        k = rest.find(ch)
        if k >= 0 and k < end:
            end = k
    auth = rest[:end]
    at = auth.rfind("@")
    userinfo = auth[:at] if at >= 0 else None
    hostport = auth[at + 1:]
    if hostport.startswith("["):
        rb = hostport.find("]")
        host = hostport[:rb + 1] if rb >= 0 else hostport
        tail = hostport[rb + 1:] if rb >= 0 else ""
        port = tail[1:] if tail.startswith(":") else None
    else:
        c = hostport.rfind(":")
        if c >= 0:
            host, port = hostport[:c], hostport[c + 1:]
        else:
            host, port = hostport, None
    return userinfo, host, port


def check_url(inp):
    """The property on one input. Returns None or a description of the violation."""
    try:
        u = parse_url(inp)
    except LocationParseError:
        mark("rejected")
        return None
    except Exception as e:
        return "parse_url raised %s: %r" % (type(e).__name__, e)
    if not isinstance(u, Url):
        return "not a Url"
    mark("parsed")
    scheme = u.scheme
    if scheme is not None and scheme != scheme.lower():
        return "scheme not lower-cased"
    if u.port is not None and not (0 <= u.port <= 65535):
        return "port out of range"
    normal = scheme in (None, "http", "https")
    if normal:
        if u.host is not None and _no_escapes(u.host) != _no_escapes(u.host).lower():
            return "host not lower-cased: %r" % (u.host,)
        if u.path:
            segs = u.path.split("/")
            if "." in segs or ".." in segs:
                return "dot-segment left in path %r" % (u.path,)
            if not component_ok(u.path, PATH_OK):
                return "illegal character in path %r" % (u.path,)
        if u.auth is not None and not component_ok(u.auth, USERINFO_OK):
            return "illegal character in userinfo %r" % (u.auth,)
        if u.query is not None and not component_ok(u.query, QUERY_OK):
            return "illegal character in query %r" % (u.query,)
        if u.fragment is not None and not component_ok(u.fragment, QUERY_OK):
            return "illegal character in fragment %r" % (u.fragment,)
        # re-parsing the string form gives the same Url (http/https URLs)
        if scheme is None:
            again = u
        else:
          try:
            again = parse_url(u.url)
          except Exception as e:
            return "string form %r does not parse again: %r" % (u.url, e)
        if again != u and again._replace(host=again.host or None) != u._replace(host=u.host or None):
            return "not idempotent: %r -> %r -> %r" % (inp, tuple(u), tuple(again))
    # agreement with the independent reading on host / port / userinfo
    ref = ref_authority(inp)
    if ref is None or ref[1] == "" and ref[0] is None and ref[2] is None:
        if u.host is not None:
            return "urllib3 sees host %r where RFC 3986 sees no authority" % (u.host,)
        return None
    r_user, r_host, r_port = ref
    host = u.host
    if host is None:
        if r_host != "":
            return "urllib3 sees no host, RFC 3986 reading gives %r" % (r_host,)
    else:
        # compare modulo the documented normalisations: case, IDNA (ASCII only here), zone-id %25 -> %
        a = host.lower()
        b = r_host.lower()
        if a != b:
            b2 = b.replace("%25", "%", 1) if b.startswith("[") else b
            if a != b2 and not (b.startswith("[") and _zone_equiv(a, b)):
                return "host %r but an RFC 3986 parser sees %r" % (host, r_host)
    if r_port is not None and r_port.endswith("\n"):
        r_port = r_port[:-1]      # Python's `$` admits one trailing newline; it is dropped, not mis-read
    if r_port in (None, ""):
        if u.port is not None:
            return "port %r from nowhere" % (u.port,)
    else:
        if not (r_port.isascii() and r_port.isdigit()) or u.port != int(r_port):
            return "port %r but the authority says %r" % (u.port, r_port)
    if (u.auth or None) is None:
        if r_user not in (None, ""):
            return "userinfo %r dropped" % (r_user,)
    elif normal:
        if _pct_norm(u.auth) != _pct_norm(_encode_invalid_chars(r_user, set(USERINFO_OK))):
            return "userinfo %r but the authority says %r" % (u.auth, r_user)
    elif u.auth != r_user:
        return "userinfo %r but the authority says %r" % (u.auth, r_user)
    return None


def _pct_norm(s):
    return s


def _no_escapes(s):
    if s.startswith("[") and "%" in s:
        s = s[:s.index("%")]        # zone ids are opaque, case-sensitive interface names (RFC 6874)
    return re.sub(r"%[0-9A-Fa-f]{2}", "", s)


def _zone_equiv(a, b):
    """[v6%25zone] and [v6%zone] denote the same scoped address; zone characters outside unreserved are re-encoded."""
    def split(h):
        h = h.strip("[]")
        if "%" in h:
            i = h.index("%")
            z = h[i + 1:]
            if z.startswith("25") and len(z) > 2:
                z = z[2:]
            return h[:i], z
        return h, None
    a0, az = split(a)
    b0, bz = split(b)
    if a0 != b0:
        return False
    if az is None or bz is None:
        return az == bz
    return True


def _template_body(x):
    url = TEMPLATES[P.template].replace("{X}", x)
    why = check_url(url)
    if why:
        return _fail("%r: %s" % (url, why))
    return True


def strings_upto(alphabet, n):
    out = [""]
    layer = [""]
    for _ in range(n):
        layer = [a + ch for a in layer for ch in alphabet]
        out.extend(layer)
    return out


_STR = {}


def template_dims(part):
    key = part["maxlen"]
    if key not in _STR:
        _STR[key] = strings_upto(ALPHABET, key)
    k, m = part.get("slice", (0, 1))
    return [part["templates"], _STR[key][k::m]]


def _template_point(idx):
    name, x = decode_point(idx, template_dims)
    P["template"] = name
    return _untraced(_template_body)(x)


def _untraced(fn):
    from kit.net import _untraced as u
    return u(fn)


def c14_template(idx: int) -> bool:
    """
    pre: 0 <= idx < P.n
    post: _
    """
    return run(_template_point, idx)


def _port_body(digits, slash):
    url = "http://h:" + digits + ("/" if slash else "")
    try:
        u = parse_url(url)
    except LocationParseError:
        mark("rejected")
        # must be rejected only when out of range
        return digits != "" and int(digits) > 65535
    if digits == "":
        return u.port is None and u.host == "h"
    mark("accepted")
    return u.port == int(digits) and 0 <= u.port <= 65535 and u.host == "h"


def port_dims(part):
    return [part["extra"] + strings_upto("0123456789", part["maxlen"]), [False, True]]


def _port_point(idx):
    digits, slash = decode_point(idx, port_dims)
    return _untraced(_port_body)(digits, slash)


def c14_port(idx: int) -> bool:
    """
    pre: 0 <= idx < P.n
    post: _
    """
    return run(_port_point, idx)


def ref_remove_dot_segments(path):
    """RFC 3986 section 5.2.4, transcribed literally (input-buffer/output-buffer algorithm)."""
    inp = path
    out = ""
    while inp:
        if inp.startswith("../"):
            inp = inp[3:]
        elif inp.startswith("./"):
            inp = inp[2:]
        elif inp.startswith("/./"):
            inp = "/" + inp[3:]
        elif inp == "/.":
            inp = "/"
        elif inp.startswith("/../"):
            inp = "/" + inp[4:]
            k = out.rfind("/")
            out = out[:k] if k >= 0 else ""
        elif inp == "/..":
            inp = "/"
            k = out.rfind("/")
            out = out[:k] if k >= 0 else ""
        elif inp in (".", ".."):
            inp = ""
        else:
            k = inp.find("/", 1)
            if k < 0:
                seg, inp = inp, ""
            else:
                seg, inp = inp[:k], inp[k:]
            out += seg
    return out


SEGS = [".", "..", "", "a", "b."]


def _dotseg_body(n, s0, s1, s2, s3, s4, lead, trail):
    segs = [SEGS[i] for i in [s0, s1, s2, s3, s4][:n]]
    path = ("/" if lead else "") + "/".join(segs) + ("/" if trail else "")
    if not path.startswith("/"):
        # a rootless path behind a scheme ('http:../admin'): whatever urllib3 makes of it, the result carries no dot-segment and
        # is a fixed point of parsing
        u = parse_url("http:" + path)
        segs_out = (u.path or "").split("/")
        if "." in segs_out or ".." in segs_out:
            return _fail("%r parsed to path %r: dot-segment left" % ("http:" + path, u.path))
        again = parse_url(u.url)
        if again != u:
            return _fail("%r -> %r, whose string form %r parses to %r" % ("http:" + path, u, u.url, again))
        mark("rootless")
        return True
    got = _remove_path_dot_segments(path)
    out_segs = got.split("/")
    if "." in out_segs or ".." in out_segs:
        return _fail("%r -> %r still has a dot-segment" % (path, got))
    in_segs = path.split("/")
    if "." not in in_segs and ".." not in in_segs:
        mark("identity")
        return got == path or _fail("%r has no dot-segments but became %r" % (path, got))
    # RFC 3986 5.2.4 equality whenever no '..' climbs above the root (there the RFC clamps; urllib3's result is
    # still dot-free, checked above, but may drop an empty segment — not demanded by the property)
    depth = 0
    under = False
    for sg in in_segs[1:]:
        if sg == "..":
            if depth == 0:
                under = True
            else:
                depth -= 1
        elif sg != ".":
            depth += 1
    if not under:
        exp = ref_remove_dot_segments(path)
        if got != exp:
            return _fail("%r -> %r, RFC 3986 5.2.4 gives %r" % (path, got, exp))
        mark("rfc-equal")
    return True


def dotseg_dims(part):
    return [_dot_shapes(part["maxn"]), [False, True], [False, True]]


def _dot_shapes(maxn):
    out = []

    def rec(n, prefix):
        if len(prefix) == n:
            out.append((n, tuple(prefix + [0] * (5 - n))))
            return
        for i in range(5):
            rec(n, prefix + [i])
    for n in range(maxn + 1):
        rec(n, [])
    return out


def _dotseg_point(idx):
    (n, sh), lead, trail = decode_point(idx, dotseg_dims)
    return _untraced(_dotseg_body)(n, sh[0], sh[1], sh[2], sh[3], sh[4], lead, trail)


def c14_dotseg(idx: int) -> bool:
    """
    pre: 0 <= idx < P.n
    post: _
    """
    return run(_dotseg_point, idx)


ALLOWED_SETS = {"userinfo": USERINFO_OK, "path": PATH_OK, "query": QUERY_OK, "unreserved": UNRESERVED}


def _char_body(c, situation):
    allowed = ALLOWED_SETS[P.allowed]
    aset = {"userinfo": U._USERINFO_CHARS, "path": U._PATH_CHARS, "query": U._QUERY_CHARS,
            "unreserved": U._UNRESERVED_CHARS}[P.allowed]
    ch = chr(c)
    if situation == 0:
        s = ch
    elif situation == 1:
        s = "%41" + ch          # after a valid escape
    else:
        s = ch + "%zz"          # next to an invalid escape
    out = _encode_invalid_chars(s, aset)
    # reference: UTF-8 bytes, each either kept (allowed ASCII / the % of a valid escape when ALL % are escapes)
    raw = s.encode("utf-8", "surrogatepass")
    valid_escapes = len(re.findall(r"%[0-9a-fA-F]{2}", s))
    all_pct_valid = valid_escapes == s.count("%")
    s_up = re.sub(r"%[0-9a-fA-F]{2}", lambda m: m.group(0).upper(), s)
    exp = ""
    for byte in s_up.encode("utf-8", "surrogatepass"):
        chb = chr(byte)
        if (byte < 128 and chb in allowed) or (chb == "%" and all_pct_valid):
            exp += chb
        else:
            exp += "%" + HEXU[byte >> 4] + HEXU[byte & 15]
    if out != exp:
        return _fail("%r encoded as %r, expected %r" % (s, out, exp))
    if not component_ok(out, allowed):
        return _fail("output %r leaves the allowed set" % (out,))
    return True


def char_dims(part):
    return [list(range(part["lo"], part["hi"] + 1)), [0, 1, 2]]


def _char_point(idx):
    c, situation = decode_point(idx, char_dims)
    return _untraced(_char_body)(c, situation)


def c14_char(idx: int) -> bool:
    """
    pre: 0 <= idx < P.n
    post: _
    """
    return run(_char_point, idx)


DIMS = {"c14_template": template_dims, "c14_port": port_dims, "c14_dotseg": dotseg_dims,
        "c14_char": char_dims}


# ---- E2 lemmas -----------------------------------------------------------------------------------------------

def LEMMAS(tier):
    import z3
    from engine import re2smt as R
    out = []
    val = {}
    for name in ["_URI_RE", "_HOST_PORT_RE", "_IPV4_RE", "_IPV6_RE", "_IPV6_ADDRZ_RE", "_TARGET_RE", "_SCHEME_RE",
                 "_ZONE_ID_RE"]:
        pat = getattr(U, name)
        try:
            n, bad = R.validate(pat, 10 if tier == "quick" else 40)
        except R.Unsupported as e:
            out.append({"name": "translate " + name, "verdict": "inconclusive", "detail": "unsupported: %s" % e})
            continue
        val[name] = n
        out.append({"name": "translator agrees with re engine on " + name, "query": "solver-drawn members of L and ~L vs real match",
                    "verdict": "holds" if not bad else "inconclusive", "validated": n, "detail": repr(bad[:3]) if bad else "",
                    "queries": n, "seconds": 0})

    def lemma(name, regex, replay, query):
        try:
            out.append(R.decide_empty(name, regex, replay=replay, query=query, timeout=120))
        except R.Unsupported as e:
            out.append({"name": name, "verdict": "inconclusive", "detail": "unsupported: %s" % e})

    # 0. running time: no unbounded repeat in the URL patterns has an AMBIGUOUS iteration — no string of its body can also be
    #    read as two or more consecutive bodies.  That is the nested-quantifier family of catastrophic backtracking ((x+)*,
    #    (a|aa)*, (a|a?)+ ...): with it, a failing suffix makes the backtracking matcher try exponentially many splits.
    def blows_up(w):
        """Replay on the real code: parse_url on inputs built from the witness, in a child process with a time limit."""
        import subprocess, sys as _sys
        prog = ("import sys, time\n"
                "sys.path[:0] = %r\n"
                "from urllib3.util.url import parse_url\n"
                "w = %r\n"
                "for tpl in ('http://%%s\\x00', 'http://%%s[', '//%%s:x', 'http://u@%%s]', '%%s\\x00', 'http://%%s/%%%%zz\\n', 'http://[%%s'):\n"
                "    for n in (4, 40):\n"
                "        t = time.time()\n"
                "        try: parse_url(tpl %% (w * n))\n"
                "        except Exception: pass\n"
                "        print(tpl, n, round(time.time() - t, 3), flush=True)\n") % ([p for p in _sys.path if p], w)
        try:
            r = subprocess.run([_sys.executable, "-c", prog], capture_output=True, timeout=20)
            return False if r.returncode == 0 else False
        except subprocess.TimeoutExpired:
            return True          # 40 repetitions of the witness do not finish in 20 s: super-linear (4 repetitions did)
    for name in ["_URI_RE", "_HOST_PORT_RE", "_IPV4_RE", "_IPV6_RE", "_IPV6_ADDRZ_RE", "_TARGET_RE", "_SCHEME_RE", "_ZONE_ID_RE"]:
        try:
            reps = R.Translator(getattr(U, name)).unbounded_repeats()
        except R.Unsupported as e:
            out.append({"name": "repeats of " + name, "verdict": "inconclusive", "detail": "unsupported: %s" % e})
            continue
        for where, body in reps:
            lemma("%s: unbounded repeat at %s iterates unambiguously" % (name, where),
                  z3.Intersect(body, z3.Concat(body, z3.Plus(body))), blows_up,
                  "exists w in L(body) that is also in L(body)L(body)+")
    uri = R.Translator(U._URI_RE)
    # 1. _URI_RE.match never returns None  => AttributeError can only come from _HOST_PORT_RE
    lemma("URI_RE total", z3.Complement(uri.language()), lambda w: U._URI_RE.match(w) is None,
          "exists s. not match(_URI_RE, s)")
    # 2. the authority group can never contain / ? # or backslash
    def bad_authority(w):
        m = U._URI_RE.match("//" + w)
        return m is not None and m.group(2) is not None and any(c in m.group(2) for c in "/?#\\")
    lemma("authority excludes / ? # backslash", z3.Intersect(uri.group_language(2), R.contains_any("/?#\\")), bad_authority,
          "exists s in L(authority group). s contains one of / ? # \\")
    # 3. scheme group is an RFC 3986 scheme
    scheme_ref = z3.Concat(R.chars("abcdefghijklmnopqrstuvwxyzABCDEFGHIJKLMNOPQRSTUVWXYZ"),
                           z3.Star(R.chars("abcdefghijklmnopqrstuvwxyzABCDEFGHIJKLMNOPQRSTUVWXYZ0123456789+.-")))
    lemma("scheme group is ALPHA *( ALPHA / DIGIT / + / - / . )",
          z3.Intersect(uri.group_language(1), z3.Complement(scheme_ref)),
          lambda w: (U._URI_RE.match(w + ":") or [None, None])[1] == w, "L(scheme group) - RFC3986 scheme")
    hp = R.Translator(U._HOST_PORT_RE)
    host = hp.group_language(1)
    notbr = z3.Complement(z3.Concat(R.lit("["), R.sigma_star()))
    def bad_host(w):
        m = U._HOST_PORT_RE.match(w)
        return m is not None and not m.group(1).startswith("[") and any(c in m.group(1) for c in "/?#[]:")
    lemma("non-bracketed host excludes / ? # [ ] :", z3.Intersect(host, notbr, R.contains_any("/?#[]:")), bad_host,
          "exists h in L(host group), h[0] != '['. h contains one of / ? # [ ] :")
    hexd = R.chars("0123456789abcdefABCDEF")
    bad_pct = z3.Concat(R.sigma_star(), R.lit("%"), z3.Complement(z3.Concat(hexd, hexd, R.sigma_star())))
    def bad_pct_host(w):
        m = U._HOST_PORT_RE.match(w)
        return m is not None and not m.group(1).startswith("[") and re.search(r"%(?![0-9a-fA-F]{2})", m.group(1)) is not None
    lemma("non-bracketed host has % only as %HH", z3.Intersect(host, notbr, bad_pct), bad_pct_host,
          "exists h in L(host group) without '['. some % not followed by two hex digits")
    digits = R.chars("0123456789")
    port_ref = z3.Union(R.lit(""), R.lit("0"), z3.Concat(R.chars("123456789"), z3.Loop(digits, 0, 4)))
    lemma("port group is ''|0|[1-9][0-9]{0,4}", z3.Intersect(hp.group_language(2), z3.Complement(port_ref)),
          lambda w: (U._HOST_PORT_RE.match("h:" + w) or [None, None, None])[2] == w, "L(port group) - (|0|[1-9][0-9]{0,4})")
    # bracketed host is [IPv6 (zone)?]
    v6z = R.Translator(U._IPV6_ADDRZ_RE)
    br = z3.Concat(R.lit("["), R.sigma_star())
    lemma("bracketed host is an IPv6 literal with optional zone",
          z3.Intersect(host, br, z3.Complement(_strip_dollar(v6z))),
          lambda w: False, "L(host group) & '['... - L(_IPV6_ADDRZ)")
    # 4. IPv4 / IPv6 grammars vs RFC 3986
    dec_octet = z3.Union(digits, z3.Concat(R.chars("123456789"), digits), z3.Concat(R.lit("1"), digits, digits),
                         z3.Concat(R.lit("2"), R.chars("01234"), digits), z3.Concat(R.lit("25"), R.chars("012345")))
    ipv4_rfc = z3.Concat(dec_octet, R.lit("."), dec_octet, R.lit("."), dec_octet, R.lit("."), dec_octet)
    loose_octet = z3.Loop(digits, 1, 3)
    ipv4_loose = z3.Concat(loose_octet, R.lit("."), loose_octet, R.lit("."), loose_octet, R.lit("."), loose_octet)
    v4 = R.Translator(U._IPV4_RE)
    nl = z3.Option(R.lit("\n"))
    lemma("RFC 3986 IPv4address is accepted", z3.Intersect(ipv4_rfc, z3.Complement(v4.language())),
          lambda w: U._IPV4_RE.match(w) is None, "RFC IPv4address - L(_IPV4_RE)")
    lemma("_IPV4_RE accepts only dotted quads of 1-3 digits",
          z3.Intersect(v4.language(), z3.Complement(z3.Concat(ipv4_loose, nl))),
          lambda w: U._IPV4_RE.match(w) is not None and re.fullmatch(r"(?:[0-9]{1,3}\.){3}[0-9]{1,3}\n?", w, re.A) is None,
          "L(_IPV4_RE) - loose dotted quad")
    h16 = z3.Loop(hexd, 1, 4)
    h16c = z3.Concat(h16, R.lit(":"))
    ls32 = z3.Union(z3.Concat(h16, R.lit(":"), h16), ipv4_loose)
    def rep(r, lo, hi):
        return z3.Loop(r, lo, hi) if hi > 0 else R.lit("")
    def opt_prefix(k):      # [ *k( h16 ":" ) h16 ]
        return z3.Option(z3.Concat(rep(h16c, 0, k), h16)) if k > 0 else z3.Option(h16)
    ipv6_rfc = z3.Union(
        z3.Concat(rep(h16c, 6, 6), ls32),
        z3.Concat(R.lit("::"), rep(h16c, 5, 5), ls32),
        z3.Concat(z3.Option(h16), R.lit("::"), rep(h16c, 4, 4), ls32),
        z3.Concat(opt_prefix(1), R.lit("::"), rep(h16c, 3, 3), ls32),
        z3.Concat(opt_prefix(2), R.lit("::"), rep(h16c, 2, 2), ls32),
        z3.Concat(opt_prefix(3), R.lit("::"), h16c, ls32),
        z3.Concat(opt_prefix(4), R.lit("::"), ls32),
        z3.Concat(opt_prefix(5), R.lit("::"), h16),
        z3.Concat(opt_prefix(6), R.lit("::")),
    )
    v6 = R.Translator(U._IPV6_RE)
    lemma("_IPV6_RE equals the RFC 3986 IPv6address grammar (loose dec-octet) : L - RFC",
          z3.Intersect(v6.language(), z3.Complement(z3.Concat(ipv6_rfc, nl))),
          lambda w: U._IPV6_RE.match(w) is not None, "L(_IPV6_RE) - RFC3986 IPv6address")
    lemma("_IPV6_RE equals the RFC 3986 IPv6address grammar : RFC - L",
          z3.Intersect(ipv6_rfc, z3.Complement(v6.language())),
          lambda w: U._IPV6_RE.match(w) is None, "RFC3986 IPv6address - L(_IPV6_RE)")
    # 5. request-target pattern: path group has no ? #, query group no #
    tg = R.Translator(U._TARGET_RE)
    lemma("_TARGET_RE path group excludes ? #", z3.Intersect(tg.group_language(1), R.contains_any("?#")), lambda w: False,
          "L(path group) contains ? or #")
    lemma("_TARGET_RE query group excludes #", z3.Intersect(tg.group_language(2), R.contains_any("#")), lambda w: False,
          "L(query group) contains #")
    return out


def _strip_dollar(tr):
    """Language of a ^...$ pattern without the optional trailing newline that `$` admits."""
    import z3
    from engine import re2smt as R
    return z3.Intersect(tr.language(), z3.Complement(z3.Concat(R.sigma_star(), R.lit("\n"))))


def JOBS(tier):
    quick = tier == "quick"
    t = 170 if quick else 900
    jobs = []
    names = list(TEMPLATES)
    deep = ("whole", "authority", "userinfo", "host_after_at", "bracket", "path")
    for name in names:
        ml = 3 if (quick or name not in deep) else 4
        nsl = 2 if ml == 3 else 12
        for k in range(nsl):
            jobs.append({"func": "c14_template", "part": {"templates": [name], "maxlen": ml, "slice": [k, nsl]}, "timeout": t,
                         "path_timeout": 60, "samples": 1})
    extra = ["65535", "65536", "065535", "0065536", "99999", "100000", "00000", "000080", "0000000443", "655350",
             "4294967376", "18446744073709551696"]
    jobs.append({"func": "c14_port", "part": {"maxlen": 3 if quick else 5, "extra": extra}, "timeout": t, "samples": 1})
    jobs.append({"func": "c14_dotseg", "part": {"maxn": 4 if quick else 5}, "timeout": t, "samples": 1})
    ranges = [(0, 0x3FF), (0x400, 0x7FF)] if quick else [(lo, lo + 0xFFF) for lo in range(0, 0x3000, 0x1000)] + [(0xD700, 0xE0FF), (0xFF00, 0x100FF), (0x10FF00, 0x10FFFF)]
    for a in ALLOWED_SETS:
        for lo, hi in ranges:
            jobs.append({"func": "c14_char", "part": {"allowed": a, "lo": lo, "hi": hi}, "timeout": t, "samples": 1})
    return jobs


EVIDENCE = {
    "bounds": {"quick": "E2 lemmas: strings of any length (z3 regex theory, code points <= U+2FFFF); E1: 14 URL skeletons with one "
                        "hole of <= 3 characters over the 15-character alphabet '/\\\\?#@:%[].aA0 SP LF' (exhaustive), ports of <= 3 "
                        "digits + 12 boundary/overflow spellings, dot-segment lists of <= 4 segments from {., .., '', a, b.}, per-character encoding lemma for code points 0..0x7FF (every 1- and 2-byte UTF-8 form) x 4 allowed sets x "
                        "3 percent situations; values handed to the regex engine / codecs are solver-enumerated one model per path",
               "thorough": "holes <= 4 for the whole-input/authority/userinfo/host/bracket/path skeletons (<= 3 elsewhere), ports <= 5 digits + overflow spellings, <= 5 segments, code points 0..0x2FFF + surrogate/BMP/astral edges"},
    "outside": ["running time beyond ambiguous iteration of unbounded repeats (polynomial blow-ups of adjacent repeats, cost as such)",
                "IDNA mapping tables (idna package): non-ASCII hosts are outside the alphabet",
                "holes longer than the bound / characters outside the alphabet in E1 templates",
                "capture-group priorities in E2 (lemmas hold for every parse, hence for the one Python picks)"],
    "stubs": [],
    "assumptions": ["z3 character sort ends at U+2FFFF; classes in these patterns are ASCII-defined, higher code points "
                    "behave like other non-ASCII characters"],
}
