"""C11 — request bodies are framed exactly and re-sent identically.

c11_frame  : HTTPConnection.request with every body kind; the content is a symbolic string (<= 3 characters over an alphabet
             with CR, LF, NUL, 2- and 3-byte UTF-8), chunk lists are cut at symbolic positions (empty pieces included), file
             bodies use a symbolic blocksize and start offset; method, chunked flag and caller-supplied framing header symbolic.
             An independent framing parser reads the wire: exactly one request, exactly one of Content-Length / chunked when
             the caller gave none, de-framed payload == the body's bytes, no zero-size chunk before the terminator, body-less
             GET/HEAD/DELETE/... unframed unless chunked was requested, other body-less methods Content-Length: 0.
c11_resend : pool / PoolManager level, recursion not cut: attempt histories {ok, reset-then-ok, 503-then-ok, 307/308-then-ok,
             303-then-ok, two failures} x body kinds: every attempt's de-framed body equals the first attempt's expected bytes,
             or the call fails with UnrewindableBodyError; after 303 the body is gone.
"""
from __future__ import annotations

import array
import io

from kit.h import P, run, mark, known, concretize, decode_point
from kit import net as N
from kit import env as E

from urllib3 import HTTPConnectionPool, PoolManager
from urllib3.connection import HTTPConnection
from urllib3.exceptions import HTTPError, UnrewindableBodyError, MaxRetryError
from urllib3.util.retry import Retry

ALPHABET = "a\r\n\x00é€0"
RALPHA = "a\r\n0"
KINDS = ["none", "bytes", "str", "bytearray", "memoryview", "BytesIO", "StringIO", "file_no_tell", "file_bad_tell", "list",
         "generator", "empty_list", "array_H", "raw_short_reads", "list_of_str", "tuple", "iter_list", "chain", "iterator_obj"]
METHODS = ["GET", "HEAD", "DELETE", "OPTIONS", "CONNECT", "TRACE", "POST", "PUT", "PATCH", "post", "get"]
NOT_EXPECTING = {"GET", "HEAD", "DELETE", "TRACE", "OPTIONS", "CONNECT"}


def _fail(msg):
    from kit import h
    h.INFO["why"] = msg
    return False


class NoTell:
    """File-like object with read() only (a pipe / socket file)."""

    def __init__(self, data):
        self._b = io.BytesIO(data)

    def read(self, n=-1):
        return self._b.read(n)


class BadTell(io.BytesIO):
    def tell(self):
        raise OSError("tell failed")


class ShortReads(io.RawIOBase):
    """Raw stream: read(n) hands out at most one byte less than asked (never 0 before EOF)."""

    def __init__(self, data):
        self._d = data
        self._p = 0

    def readable(self):
        return True

    def readinto(self, b):
        n = max(1, len(b) - 1)
        piece = self._d[self._p:self._p + n]
        b[:len(piece)] = piece
        self._p += len(piece)
        return len(piece)

    def seekable(self):
        return False


def make_body(kind, text, i, j, offset):
    """Returns (body object, expected payload bytes or None when there is no body)."""
    data = text.encode("utf-8")
    k = KINDS[kind]
    if k == "none":
        return None, None
    if k == "bytes":
        return data, data
    if k == "str":
        return text, data
    if k == "bytearray":
        return bytearray(data), data
    if k == "memoryview":
        return memoryview(data), data
    if k == "BytesIO":
        f = io.BytesIO(data)
        f.seek(min(offset, len(data)))
        return f, data[min(offset, len(data)):]
    if k == "StringIO":
        f = io.StringIO(text)
        off = min(offset, len(text))
        f.seek(off)
        return f, text[off:].encode("utf-8")
    if k == "file_no_tell":
        return NoTell(data), data
    if k == "file_bad_tell":
        return BadTell(data), data
    if k in ("list", "tuple", "generator", "list_of_str", "iter_list", "chain", "iterator_obj"):
        i = min(i, len(text))
        j = min(max(i, j), len(text))
        parts = [text[:i], text[i:j], text[j:]]
        if k == "list_of_str":
            return list(parts), data
        bparts = [p.encode("utf-8") for p in parts]
        if k == "list":
            return list(bparts), data
        if k == "tuple":
            return tuple(bparts), data
        if k == "iter_list":
            return iter(bparts), data                 # one-shot iterators that are not generator objects
        if k == "chain":
            import itertools
            return itertools.chain(bparts[:1], bparts[1:]), data
        if k == "iterator_obj":
            return OneShot(bparts), data
        return (p for p in bparts), data
    if k == "empty_list":
        return [], b""
    if k == "array_H":
        vals = [ord(c) & 0xFFFF for c in text]
        a = array.array("H", vals)
        return a, a.tobytes()
    if k == "raw_short_reads":
        return ShortReads(data), data
    raise KeyError(k)


class OneShot:
    """Hand-written iterator: __iter__ returns itself, so a second pass yields nothing."""

    def __init__(self, parts):
        self.parts = list(parts)

    def __iter__(self):
        return self

    def __next__(self):
        if not self.parts:
            raise StopIteration
        return self.parts.pop(0)


class Collect(N.BaseHandler):
    pass


def _frame_body(kind, text, i, j, offset, blocksize, mi, chunked, framing_hdr, cv):
    method = METHODS[mi]
    body, want = make_body(kind, text, i, j, offset)
    netw = N.install(Collect())
    try:
        conn = HTTPConnection("h", 80, blocksize=blocksize)
        headers = {}
        caller_framing = None
        if framing_hdr == 1 and want is not None:
            nm = ["Content-Length", "content-length", "CONTENT-LENGTH"][cv]
            headers[nm] = str(len(want))
            caller_framing = "cl"
        elif framing_hdr == 2 and want is not None:
            nm = ["Transfer-Encoding", "transfer-encoding", "TRANSFER-ENCODING"][cv]
            headers[nm] = "chunked"
            caller_framing = "te"
        try:
            conn.request(method, "/p", body=body, headers=headers, chunked=chunked)
        except (TypeError, ValueError, HTTPError) as e:
            return _fail("request(%s, body=%s %r) raised %r" % (method, KINDS[kind], text, e))
        tx = b"".join(s.tx for s in netw.socks)
        try:
            reqs, rest = N.parse_requests(tx)
        except N.ParseError as e:
            return _fail("wire is not a well-formed request (%s): %r | body kind %s text %r" % (e, tx[-120:], KINDS[kind], text))
        if len(reqs) != 1 or rest:
            return _fail("%d complete requests and %d stray bytes on the wire: %r | body kind %s text %r chunked=%s"
                         % (len(reqs), len(rest), tx[-160:], KINDS[kind], text, chunked))
        r = reqs[0]
        cl = N.hdr(r, b"content-length")
        te = N.hdr(r, b"transfer-encoding")
        if len(cl) > 1 or len(te) > 1:
            return _fail("framing header repeated: CL=%r TE=%r" % (cl, te))
        if cl and te:
            return _fail("both Content-Length and Transfer-Encoding on the wire")
        payload = r["body"]
        if want is None:
            if payload:
                return _fail("body-less request carries a payload")
            if chunked:
                if not te:
                    return _fail("chunked=True but no Transfer-Encoding")
                mark("bodyless chunked")
            elif method.upper() in NOT_EXPECTING:
                if cl or te:
                    return _fail("body-less %s is framed: CL=%r TE=%r" % (method, cl, te))
                mark("bodyless unframed")
            else:
                if cl != [b"0"] or te:
                    return _fail("body-less %s must carry Content-Length: 0, got CL=%r TE=%r" % (method, cl, te))
                mark("bodyless CL0")
            return True
        if payload != want:
            return _fail("payload %r != body bytes %r (kind %s, text %r, cuts %d/%d, offset %d, blocksize %d, chunked=%s, hdr=%s)"
                         % (payload, want, KINDS[kind], text, i, j, offset, blocksize, chunked, caller_framing))
        if caller_framing is None:
            if bool(cl) == bool(te):
                return _fail("exactly one framing header expected, got CL=%r TE=%r" % (cl, te))
        if cl and int(cl[0]) != len(want):
            return _fail("Content-Length %r for %d payload bytes" % (cl, len(want)))
        if r["framing"] == "chunked":
            if any(len(c) == 0 for c in r["chunks"]):
                return _fail("zero-size chunk before the terminator")
            mark("chunked")
        else:
            mark("content-length")
        return True
    finally:
        N.uninstall()


def strings_upto(alphabet, n):
    out = [""]
    layer = [""]
    for _ in range(n):
        layer = [a + ch for a in layer for ch in alphabet]
        out.extend(layer)
    return out


def frame_dims(part):
    """(kind, text, cut points, offset, blocksize) shapes x method x (chunked flag, caller framing header, casing)."""
    shapes = []
    for kind in part["kinds"]:
        texts = strings_upto(part["alpha"], part["maxlen"]) if kind != 0 else [""]
        for text in texts:
            cuts = [(i, j) for i in range(len(text) + 1) for j in range(i, len(text) + 1)] if kind in (9, 10, 14, 15, 16, 17, 18) else [(0, 0)]
            offs = range(len(text) + 1) if kind in (5, 6) else [0]
            blocks = range(1, part["maxblock"] + 1) if kind in (5, 6, 7, 8, 13) else [1]
            for (i, j) in cuts:
                for off in offs:
                    for bs in blocks:
                        shapes.append((kind, text, i, j, off, bs))
    framing = [(False, 0, 0), (True, 0, 0)]
    if part["hdrs"] == "few":
        framing += [(False, 1, 0), (False, 1, 2), (False, 2, 0), (True, 2, 1)]
    elif part["hdrs"]:
        framing += [(False, 1, cv) for cv in range(3)] + [(ch, 2, cv) for ch in (False, True) for cv in range(3)]
    return [shapes, part["methods"], framing]


def _frame_point(idx):
    (kind, text, i, j, off, bs), mi, (chunked, fh, cv) = decode_point(idx, frame_dims)
    return N._untraced(_frame_body)(kind, text, i, j, off, bs, mi, chunked, fh, cv)


def c11_frame(idx: int) -> bool:
    """
    pre: 0 <= idx < P.n
    post: _
    """
    return run(_frame_point, idx)


# ---- re-sending ------------------------------------------------------------------------------------------------------------

HISTORIES = [["ok"], ["reset", "ok"], ["503", "ok"], ["307", "ok"], ["308", "ok"], ["303", "ok"], ["reset", "503", "ok"],
             ["307x", "ok"], ["503", "307", "ok"], ["301", "ok"]]


class ScriptPeer(N.BaseHandler):
    """Answers the n-th complete request (over all connections) according to script[n]; logs every request."""

    def __init__(self, script):
        self.script = script
        self.n = 0
        self.state = {}
        self.log = []

    def on_send(self, sock, data):
        st = self.state.setdefault(sock.id, {"got": b"", "answered": 0})
        st["got"] += data

    def on_read(self, sock):
        st = self.state.setdefault(sock.id, {"got": b"", "answered": 0})
        try:
            reqs, rest = N.parse_requests(st["got"])
        except N.ParseError as e:
            self.log.append(("parse-error", str(e), st["got"][-80:]))
            return b""
        if len(reqs) > st["answered"]:
            r = reqs[st["answered"]]
            st["answered"] += 1
            step = self.script[min(self.n, len(self.script) - 1)]
            self.n += 1
            self.log.append((sock.address[0], r))
            if step == "reset":
                raise ConnectionResetError(104, "reset by peer")
            if step == "503":
                return N.response_bytes(503, "X", body=b"")
            if step in ("307", "308", "303", "301"):
                return N.response_bytes(int(step), "X", headers=[("Location", "/again%d" % self.n)], body=b"")
            if step == "307x":
                return N.response_bytes(307, "X", headers=[("Location", "http://other/again")], body=b"")
            return N.response_bytes(200, "OK", body=b"done")
        return b""


def _resend_body(front, kind, hi, text, offset):
    hist = HISTORIES[hi]
    body, want = make_body(kind, text, 1, 2, offset)
    peer = ScriptPeer(hist)
    N.install(peer)
    E.install_clock()
    try:
        retries = Retry(total=5, status_forcelist=[503], allowed_methods=None, backoff_factor=0)
        exc = None
        resp = None
        try:
            if front == 0:
                resp = HTTPConnectionPool("h", 80).urlopen("PUT", "/p", body=body, retries=retries, assert_same_host=False)
            else:
                resp = PoolManager().urlopen("PUT", "http://h/p", body=body, retries=retries)
        except HTTPError as e:
            exc = e
        attempts = [x for x in peer.log if x[0] != "parse-error"]
        bad = [x for x in peer.log if x[0] == "parse-error"]
        if bad:
            return _fail("an attempt was not a well-formed request: %r" % (bad[0],))
        if want is None:
            want = b""
        # every attempt that went on the wire carries the full body — except after a 303 (body dropped, method GET)
        after303 = False
        for n, (host, r) in enumerate(attempts):
            prev = hist[n - 1] if 0 < n <= len(hist) else None
            if prev == "303":
                after303 = True
            if after303:
                if r["body"] or r["method"] != b"GET":
                    return _fail("after 303: attempt %d is %s with body %r" % (n + 1, r["method"], r["body"]))
                continue
            if prev == "301" and r["method"] == b"GET" and not r["body"]:
                continue      # RFC 9110 15.4.2 allows a client to turn POST into GET on 301; PUT is kept by urllib3, either is fine
            if r["body"] != want:
                if isinstance(exc, UnrewindableBodyError):
                    continue
                return _fail("attempt %d of history %r carries %r, the first attempt's body is %r (kind %s, front %d, exc %r)"
                             % (n + 1, hist, r["body"], want, KINDS[kind], front, exc))
        if exc is not None:
            root = exc
            if not isinstance(exc, UnrewindableBodyError) and not (front == 1 and hi == 7 and False):
                return _fail("history %r body %s: failed with %r, only UnrewindableBodyError is an acceptable failure" % (hist, KINDS[kind], exc))
            mark("UnrewindableBodyError")
            return True
        if resp is None or resp.status != 200:
            return _fail("history %r ended with %r" % (hist, resp))
        if len(attempts) != len(hist):
            return _fail("history %r needs %d attempts, %d were made" % (hist, len(hist), len(attempts)))
        mark("resent %d" % len(hist))
        return True
    finally:
        N.uninstall()
        E.uninstall_clock()


def resend_dims(part):
    shapes = []
    for kind in part["kinds"]:
        for text in strings_upto(RALPHA, part["maxlen"])[1:]:
            for off in ((0, 1) if kind in (5, 6) else (0,)):
                shapes.append((kind, text, off))
    hists = [h for h in part["hists"] if not (part["fronts"] == [0] and h == 7)]
    return [part["fronts"], hists, shapes]


def _resend_point(idx):
    front, hi, (kind, text, off) = decode_point(idx, resend_dims)
    if front == 0 and hi == 7:
        return True
    return N._untraced(_resend_body)(front, kind, hi, text, off)


def c11_resend(idx: int) -> bool:
    """
    pre: 0 <= idx < P.n
    post: _
    """
    return run(_resend_point, idx)


DIMS = {"c11_frame": frame_dims, "c11_resend": resend_dims}


def JOBS(tier):
    quick = tier == "quick"
    t = 170 if quick else 900
    jobs = []
    for kind in range(len(KINDS)):
        jobs.append({"func": "c11_frame", "timeout": t, "path_timeout": 60, "samples": 1,
                     "part": {"kinds": [kind], "maxlen": 2 if (quick or kind in (9, 10, 14, 15, 16, 17, 18)) else 3, "maxblock": 3 if quick else 4,
                              "alpha": "a\n\u20ac" if quick else "a\r\n\x00\u20ac",
                              "methods": list(range(len(METHODS))) if (kind == 0 or not quick) else [0, 6, 9],
                              "hdrs": "few" if quick else True}})
    for front in (0, 1):
        jobs.append({"func": "c11_resend", "timeout": t, "path_timeout": 90, "samples": 1,
                     "part": {"fronts": [front], "hists": list(range(len(HISTORIES))), "kinds": list(range(len(KINDS))),
                              "maxlen": 1 if quick else 2}})
    return jobs


EVIDENCE = {
    "bounds": {"quick": "19 body kinds (None, bytes, str, bytearray, memoryview, BytesIO, StringIO, read-only file, file whose tell fails, "
                        "list/tuple/generator of chunks, list of str chunks, empty list, array('H'), raw short-reading stream) x content of "
                        "<= 2 characters over {a, LF, euro} x chunk cut points x start offset x blocksize 1..3 x {GET, POST, post} "
                        "(all 11 methods for body-less) x chunked flag x caller framing header in 3 casings; re-sending: 10 histories x 16 "
                        "kinds x pool / PoolManager",
               "thorough": "content <= 3 characters over {a, CR, LF, NUL, euro} (<= 2 for chunk lists), all 11 methods, blocksize <= 4, every casing of the caller framing header"},
    "outside": ["bodies larger than a few bytes (size classes around the 16 KiB default blocksize are represented by blocksize 1..4 "
                "around contents of 0..9 bytes)", "HTTP/2 bodies"],
    "stubs": ["create_connection -> MemSock", "clock constant", "logging disabled"],
    "assumptions": ["body contents and selectors are solver-enumerated (they reach bytes/str codecs and BytesIO, which are C)"],
}
