"""C18 — connections are never shared across differing connection settings.

c18_key   : key layer.  For one connection-affecting keyword (partition) two request contexts that differ only in
            that keyword's value (symbolic: unconstrained str / int / bool, or two fixtures for object-valued
            keywords), supplied at the manager constructor or through pool_kwargs, with host letter-case and
            explicit-default-port variations.  The real key function, _merge_pool_kwargs and connection_from_host
            run; the pool key is intercepted at connection_from_pool_key and compared as a tuple:
            v1 != v2 => keys differ;  v1 == v2 => keys equal (also across case / default-port normalisation).
c18_map   : map layer on concrete fixtures: different keys => different pool objects, equal keys => same object.
c18_reject: every keyword accepted by a pool/connection constructor is either a PoolKey field or makes the key
            function raise TypeError (never a silently shared pool).
"""
from __future__ import annotations

import inspect
import ssl

from kit.h import P, run, mark, known, pin_index, decode_point
from urllib3 import ProxyManager
import urllib3
from urllib3 import PoolManager, Retry, Timeout, HTTPHeaderDict
from urllib3.poolmanager import PoolKey, SSL_KEYWORDS
from urllib3.connectionpool import HTTPConnectionPool, HTTPSConnectionPool
from urllib3.connection import HTTPConnection, HTTPSConnection
from urllib3.util.url import parse_url
from urllib3.connection import ProxyConfig


def _fail(msg):
    from kit import h
    h.INFO["why"] = msg
    return False


def constructor_keywords():
    kws = set()
    for cls in (HTTPConnectionPool, HTTPSConnectionPool, HTTPConnection, HTTPSConnection):
        for name, p in inspect.signature(cls.__init__).parameters.items():
            if name in ("self", "host", "port") or p.kind in (p.VAR_KEYWORD, p.VAR_POSITIONAL):
                continue
            kws.add(name)
    return sorted(kws)


STR_KW = ["key_file", "key_password", "cert_file", "cert_reqs", "ca_certs", "ca_cert_data", "ssl_version", "ca_cert_dir",
          "assert_hostname", "assert_fingerprint", "server_hostname"]
INT_KW = ["timeout", "retries", "maxsize", "blocksize", "ssl_minimum_version", "ssl_maximum_version"]
BOOL_KW = ["block"]
OBJ_KW = ["ssl_context", "headers", "_proxy", "_proxy_headers", "_proxy_config", "socket_options", "source_address",
          "_socks_options", "timeout_obj", "retries_obj", "assert_hostname_false", "retries_false", "headers_hd", "_proxy_headers_hd", "timeout_total", "timeout_read"]

REAL_KW = {"timeout_obj": "timeout", "retries_obj": "retries", "assert_hostname_false": "assert_hostname",
           "retries_false": "retries", "headers_hd": "headers", "_proxy_headers_hd": "_proxy_headers",
           "timeout_total": "timeout", "timeout_read": "timeout"}

HOSTS = ["h.example", "H.EXAMPLE", "h.Example"]

_CTX = [None, None]


def _ctxs():
    if _CTX[0] is None:
        _CTX[0] = ssl.create_default_context()
        _CTX[1] = ssl.create_default_context()
    return _CTX


class KeySpy(PoolManager):
    """Real key computation; the LRU dict (which would hash and thereby realise symbolic values) is cut."""
    last_key = None

    def connection_from_pool_key(self, pool_key, request_context=None):
        self.last_key = pool_key
        return pool_key


def _key_for(kw_name, value, placement, host_i, explicit_port, scheme):
    real_kw = REAL_KW.get(kw_name, kw_name)
    if placement == 0:
        pm = KeySpy(**{real_kw: value})
        pk = None
    elif placement == 1:
        pm = KeySpy()
        pk = {real_kw: value}
    else:
        # constructor default overridden per request
        pm = KeySpy(**{real_kw: _other_default(kw_name)})
        pk = {real_kw: value}
    before = dict(pm.connection_pool_kw)
    port = (443 if scheme == "https" else 80) if explicit_port else None
    key = pm.connection_from_host(HOSTS[host_i], port=port, scheme=scheme.upper() if host_i == 1 else scheme,
                                  pool_kwargs=pk)
    if pm.connection_pool_kw != before:
        return None, "per-request override altered the manager's defaults"
    return key, None


def _other_default(kw_name):
    if kw_name in STR_KW:
        return "default-value"
    if kw_name in INT_KW:
        return 7
    if kw_name in BOOL_KW:
        return True
    return OBJ_VALUES(kw_name)[2]


def OBJ_VALUES(name, sv="x", si=1):
    c = _ctxs()
    return {
        "ssl_context": [c[0], c[1], None],
        "headers": [{"A": sv}, {"A": sv + "y"}, {"B": "1"}],
        # the same settings given as urllib3's own header container (what response.headers / HTTPHeaderDict users pass on)
        "headers_hd": [HTTPHeaderDict({"A": sv}), HTTPHeaderDict({"A": sv + "y"}), HTTPHeaderDict({"B": "1"})],
        "_proxy_headers_hd": [HTTPHeaderDict({"Proxy-Authorization": sv}), HTTPHeaderDict({"Proxy-Authorization": sv + "2"}),
                              HTTPHeaderDict({"X": "1"})],
        "_proxy": [parse_url("http://p1:3128"), parse_url("http://p2:3128"), parse_url("http://p3")],
        "_proxy_headers": [{"Proxy-Authorization": sv}, {"Proxy-Authorization": sv + "2"}, {"X": "1"}],
        "_proxy_config": [ProxyConfig(None, False, None, None), ProxyConfig(None, True, None, None),
                          ProxyConfig(None, False, False, None)],
        "socket_options": [[(6, 1, si)], [(6, 1, si + 1)], []],
        "source_address": [(sv, si), (sv, si + 1), ("0.0.0.0", 0)],
        "_socks_options": [{"username": sv}, {"username": sv + "z"}, {"rdns": "1"}],
        "timeout_obj": [Timeout(connect=si), Timeout(connect=si + 1), Timeout(read=3)],
        "timeout_total": [Timeout(total=si, connect=1, read=1), Timeout(total=si + 1, connect=1, read=1), Timeout(total=3)],
        "timeout_read": [Timeout(read=si, connect=1), Timeout(read=si + 1, connect=1), Timeout(read=3)],
        "retries_obj": [Retry(total=si), Retry(total=si + 1), Retry(5)],
        "assert_hostname_false": [False, sv, "other"],
        "retries_false": [False, si, 9],
    }[name]


def _key_body(s1, s2, i1, i2, b1, b2, placement1, placement2, h1, h2, p1, p2, https):
    kw_name = P.kw
    scheme = "https" if https else "http"
    if kw_name in ("headers", "headers_hd"):
        # PoolManager(headers=...) are the manager's per-request defaults, not a pool setting: pool_kwargs only
        placement1 = placement2 = 1
    if kw_name in SSL_KEYWORDS and not https:
        # SSL keywords are part of the key for http as well (the key is computed before they are dropped); fine
        pass
    if kw_name in STR_KW:
        v1, v2 = s1, s2
        same = s1 == s2
    elif kw_name in INT_KW:
        v1, v2 = i1, i2
        same = i1 == i2
    elif kw_name in BOOL_KW:
        v1, v2 = b1, b2
        same = b1 == b2
    else:
        vals = OBJ_VALUES(kw_name, s1, i1)
        v1 = vals[0]
        v2 = vals[1] if b1 else vals[0]
        same = not b1
    k1, err = _key_for(kw_name, v1, placement1, h1, p1, scheme)
    if err:
        return _fail(err)
    k2, err = _key_for(kw_name, v2, placement2, h2, p2, scheme)
    if err:
        return _fail(err)
    if same:
        mark("equal contexts")
        if k1 != k2:
            return _fail("contexts equal up to case/default port but keys differ: %r vs %r" % (k1, k2))
    else:
        mark("differing contexts")
        if k1 == k2:
            return _fail("keyword %s differs (%r vs %r) but the pool keys are equal" % (kw_name, v1, v2))
    # the key really carries the normalised origin
    if k1.key_host != "h.example" or k1.key_scheme != scheme or k1.key_port != (443 if https else 80):
        return _fail("origin not normalised in key: %r" % (k1[:3],))
    return True


COMBOS = [(pl1, pl2, h1, h2, p1, p2, https)
          for (pl1, pl2) in ((0, 0), (1, 1), (0, 1), (2, 1), (1, 2))
          for (h1, h2) in ((0, 0), (0, 1), (2, 1))
          for (p1, p2) in ((False, False), (False, True))
          for https in (False, True)]


def _key_point(s1, s2, i1, i2, b1, b2, combo):
    pl1, pl2, h1, h2, p1, p2, https = COMBOS[pin_index(combo, len(COMBOS))]
    return _key_body(s1, s2, i1, i2, b1, b2, pl1, pl2, h1, h2, p1, p2, https)


def c18_key(s1: str, s2: str, i1: int, i2: int, b1: bool, b2: bool, combo: int) -> bool:
    """
    pre: 0 <= combo < len(COMBOS)
    pre: i1 > 0 and i2 > 0
    pre: len(s1) >= 1 and len(s2) >= 1
    post: _
    """
    return run(_key_point, s1, s2, i1, i2, b1, b2, combo)


# ---- explicit falsy value vs. keyword left out ---------------------------------------------------------------------------
FALSY = [("assert_hostname", False), ("cert_reqs", 0), ("cert_reqs", ssl.CERT_NONE), ("retries", 0), ("retries", False),
         ("blocksize", 0), ("maxsize", 0), ("ssl_minimum_version", 0), ("timeout", None)]


def falsy_dims(part):
    return [list(range(len(FALSY))), [0, 1], [0, 1, 2], [False, True], [False, True]]


def _falsy_point(idx):
    fi, placement, h2, p2, https = decode_point(idx, falsy_dims)
    return _falsy_body(fi, placement, h2, p2, https)


def _falsy_body(fi, placement, h2, p2, https):
    """A keyword given explicitly with a falsy value that is NOT its default (assert_hostname=False, cert_reqs=CERT_NONE,
    retries=0/False, ...) must not share a pool with the context that leaves the keyword out."""
    name, value = FALSY[fi]
    scheme = "https" if https else "http"
    if name == "timeout" and value is None:
        return True           # timeout=None means "no timeout" but so does the default object's behaviour: not asserted
    if placement == 0:
        pm1 = KeySpy(**{name: value})
        k1 = pm1.connection_from_host("h.example", scheme=scheme)
    else:
        pm1 = KeySpy()
        k1 = pm1.connection_from_host("h.example", scheme=scheme, pool_kwargs={name: value})
    pm0 = KeySpy()
    port = (443 if https else 80) if p2 else None
    k0 = pm0.connection_from_host(HOSTS[h2], port=port, scheme=scheme)
    if k1 == k0:
        return _fail("%s=%r (explicit) and %s left out produce the same pool key" % (name, value, name))
    # map layer: really two pools
    pm = PoolManager()
    a = pm.connection_from_host("h.example", scheme=scheme, pool_kwargs={name: value})
    b = pm.connection_from_host(HOSTS[h2], port=port, scheme=scheme)
    if a is b:
        return _fail("%s=%r shares a pool with the default context" % (name, value))
    got = getattr(a, name, None) if name not in ("cert_reqs", "assert_hostname", "ssl_minimum_version") else a.conn_kw.get(name)
    mark("falsy distinct")
    return True


def c18_falsy(idx: int) -> bool:
    """
    pre: 0 <= idx < P.n
    post: _
    """
    return run(_falsy_point, idx)


def _nocontext_body(https, tls_defaults):
    """_new_pool(scheme, host, port) without a request context builds the pool from the manager's defaults — and leaves those
    defaults exactly as they were, so that the next request under the same settings finds its pool again."""
    kw = {}
    if tls_defaults:
        kw = {"ca_certs": "/ca.pem", "cert_file": "/c.pem", "key_file": "/k.pem", "key_password": "pw", "cert_reqs": "CERT_REQUIRED"}
    pm = PoolManager(**kw)
    before = dict(pm.connection_pool_kw)
    scheme = "https" if https else "http"
    first = pm.connection_from_host("h.example", scheme="https") if tls_defaults else None
    # the protected hook subclasses override and legacy callers use with three arguments: no request context given
    pm._new_pool(scheme, "other.example", 443 if https else 80)
    if pm.connection_pool_kw != before:
        lost = sorted(set(before) - set(pm.connection_pool_kw))
        return _fail("_new_pool(%r, host, port) altered the manager's defaults: lost %r, now %r"
                     % (scheme, lost, sorted(pm.connection_pool_kw)))
    if first is not None and pm.connection_from_host("h.example", scheme="https") is not first:
        return _fail("the same https request no longer finds its pool after an unrelated %s pool was created" % scheme)
    mark("defaults intact")
    return True


def c18_nocontext(https: bool, tls_defaults: bool) -> bool:
    """
    post: _
    """
    return run(_nocontext_body, https, tls_defaults)


def _map_body(kwi, differ, front, h2, p2, https):
    names = STR_KW + INT_KW + BOOL_KW + OBJ_KW
    kw_name = names[kwi]
    real_kw = REAL_KW.get(kw_name, kw_name)
    scheme = "https" if https else "http"
    if kw_name in STR_KW:
        v1, v2 = "v1", "v2"
    elif kw_name in INT_KW:
        v1, v2 = 3, 4
    elif kw_name in BOOL_KW:
        v1, v2 = True, False
    else:
        v1, v2 = OBJ_VALUES(kw_name)[:2]
    if not differ:
        v2 = v1
    if front and kw_name in ("_proxy", "_proxy_headers", "_proxy_headers_hd", "_proxy_config", "_socks_options"):
        return True           # the proxy manager sets these itself
    pm = PoolManager() if front == 0 else ProxyManager("http://proxy.example:3128")
    defaults_before = dict(pm.connection_pool_kw)
    port2 = (":443" if https else ":80") if p2 else ""
    a = pm.connection_from_url("%s://h.example/" % scheme, pool_kwargs={real_kw: v1})
    url2 = "%s://%s%s/x" % (scheme.upper() if h2 == 1 else scheme, HOSTS[h2], port2)
    b = pm.connection_from_url(url2, pool_kwargs={real_kw: v2})
    if differ:
        mark("distinct")
        if a is b:
            return _fail("%s differs but both requests got the same pool" % kw_name)
    else:
        mark("shared")
        if a is not b:
            return _fail("equal contexts (up to case/default port) got different pools")
    if pm.connection_pool_kw != defaults_before:
        return _fail("pool_kwargs leaked into the manager defaults")
    return True


def map_dims(part):
    return [list(range(part["nkw"])), [False, True], [0, 1], [0, 1, 2], [False, True], [False, True]]


def _map_point(idx):
    return _map_body(*decode_point(idx, map_dims))


def c18_map(idx: int) -> bool:
    """
    pre: 0 <= idx < P.n
    post: _
    """
    return run(_map_point, idx)


def _reject_body(i, https):
    kws = constructor_keywords()
    name = kws[i]
    field = "key_" + name
    pm = PoolManager()
    scheme = "https" if https else "http"
    value = 5 if name in ("maxsize", "blocksize", "timeout", "retries") else "v"
    try:
        pool = pm.connection_from_host("h.example", scheme=scheme, pool_kwargs={name: value})
    except TypeError as e:
        if "unexpected keyword" not in str(e):
            return field in PoolKey._fields
        mark("rejected")
        return field not in PoolKey._fields
    except Exception as e:
        # accepted by the key but the constructor dislikes the fixture value: still keyed
        return field in PoolKey._fields
    mark("keyed")
    return field in PoolKey._fields


def reject_dims(part):
    return [list(range(len(constructor_keywords()))), [False, True]]


def _reject_point(idx):
    return _reject_body(*decode_point(idx, reject_dims))


def c18_reject(idx: int) -> bool:
    """
    pre: 0 <= idx < P.n
    post: _
    """
    return run(_reject_point, idx)


DIMS = {"c18_map": map_dims, "c18_reject": reject_dims, "c18_falsy": falsy_dims}


def JOBS(tier):
    quick = tier == "quick"
    t = 120 if quick else 600
    jobs = []
    for kw in STR_KW + INT_KW + BOOL_KW + OBJ_KW:
        jobs.append({"func": "c18_key", "part": {"kw": kw}, "timeout": 80 if quick else t})
    jobs.append({"func": "c18_map", "part": {"nkw": len(STR_KW + INT_KW + BOOL_KW + OBJ_KW)}, "timeout": t})
    jobs.append({"func": "c18_reject", "part": {}, "timeout": t})
    jobs.append({"func": "c18_nocontext", "part": {}, "timeout": t})
    jobs.append({"func": "c18_falsy", "part": {}, "timeout": t})
    return jobs


def SELFTEST(tier):
    """Reflection: every PoolKey field (minus scheme/host/port) is exercised by a c18_key partition."""
    covered = set(STR_KW + INT_KW + BOOL_KW + OBJ_KW)
    fields = [f[4:] for f in PoolKey._fields if f not in ("key_scheme", "key_host", "key_port")]
    missing = [f for f in fields if f not in covered]
    return [{"name": "PoolKey fields covered by partitions", "ok": not missing, "missing": missing,
             "constructor_keywords": constructor_keywords()}]


EVIDENCE = {
    "bounds": {"quick": "for each of the 26 PoolKey fields: two contexts differing only there; str/int/bool values are "
                        "UNCONSTRAINED symbolic, object-valued keywords use two fixtures whose inner str/int are symbolic; 60 "
                        "combinations of placement (constructor, pool_kwargs, override of a constructor default) x host casing x "
                        "explicit/implicit default port x http/https; explicit falsy values (assert_hostname=False, cert_reqs=CERT_NONE, "
                        "retries=0/False, ...) vs. the keyword left out; map layer through PoolManager and ProxyManager",
               "thorough": "same, larger budget"},
    "outside": ["the LRU dict lookup with symbolic keys (hashing realises them): the map layer uses concrete fixtures",
                "ProxyManager-specific key parts beyond _proxy/_proxy_headers/_proxy_config fixtures"],
    "stubs": ["PoolManager.connection_from_pool_key intercepted in the key layer"],
    "assumptions": ["pool identity = PoolKey equality (map layer checks this on fixtures through the real dict)"],
}
