"""C05 — redirects are followed only as far as the effective retry policy allows.

c05_policy   : ONE redirect hop (re-entrant urlopen cut) through PoolManager / ProxyManager / a bare HTTPConnectionPool.
               Symbolic: how the policy is spelled (None/False/int/Retry(redirect=k)/Retry(total=k)/both), its integer budgets
               (unbounded k >= 0), raise_on_redirect, the layer it is given at (request argument or constructor), redirect=
               flag, 3xx status.  Asserts: the hop is followed iff the policy in effect has budget left; then the re-entrant
               call carries a Retry with the redirect/total budgets one lower (inductive step: chains of any length respect
               the budget); otherwise the target is never contacted and the caller gets the 3xx response or MaxRetryError.
c05_location : the follow-up request itself: symbolic status, Location form, method, body: target = RFC 3986 resolution of
               Location against the current URL (stdlib urljoin as reference), 303 -> body-less GET without content headers,
               301/302/307/308 keep method and body.
c05_chain    : closed chains (no cut) of <= 3 hops over 3 origins with a counting peer: hops followed <= budget.
"""
from __future__ import annotations

from urllib.parse import urljoin

from kit.h import P, run, mark, known, concretize, decode_point
from kit import net as N
from kit import env as E

import urllib3
from urllib3 import PoolManager, ProxyManager, HTTPConnectionPool
from urllib3._collections import HTTPHeaderDict
from urllib3.exceptions import MaxRetryError, HTTPError, HostChangedError
from urllib3.util.retry import Retry

SENTINEL = object()
STATUSES = [301, 302, 303, 307, 308, 300, 304, 305, 200]
REDIRECTING = (301, 302, 303, 307, 308)

URL0 = "http://a/dir/page?x=1"
LOCS = [
    "http://a/next",        # 0 same origin, absolute
    "http://b/next",        # 1 other host
    "http://a:81/next",     # 2 other port
    "https://a/next",       # 3 other scheme
    "//b/x",                # 4 scheme-relative
    "/abs?q=1",             # 5 path-absolute
    "rel",                  # 6 relative
    "?q=2",                 # 7 query only
    "../up",                # 8 dot segments
    "",                     # 9 empty
    None,                   # 10 no Location header
    "http://A:80/next",     # 11 same origin up to case / default port
    "http://b:80/a?u=http://a/",  # 12 other host with the old one in the query
]


class Peer(N.BaseHandler):
    """Every connection answers every request with the scripted response; logs (dial address, request bytes)."""

    def __init__(self, status, location, extra=()):
        hs = []
        if location is not None:
            hs.append(("Location", location))
        hs.extend(extra)
        self.resp = N.response_bytes(status, "X", headers=hs, body=b"0123")
        self.state = {}

    def on_send(self, sock, data):
        st = self.state.setdefault(sock.id, {"got": b"", "answered": 0, "pending": b""})
        st["got"] += data

    def on_read(self, sock):
        st = self.state.setdefault(sock.id, {"got": b"", "answered": 0, "pending": b""})
        reqs, rest = N.parse_requests(st["got"])
        if len(reqs) > st["answered"]:
            st["answered"] += 1
            return self.resp
        return b""


def requests_seen(netw, peer):
    out = []
    for s in netw.socks:
        st = peer.state.get(s.id)
        if st:
            reqs, rest = N.parse_requests(st["got"])
            for r in reqs:
                out.append((s.address, r))
    return out


class CutManager(PoolManager):
    _depth = 0
    reentry = None

    def urlopen(self, method, url, redirect=True, **kw):
        if self._depth >= 1:
            self.reentry = (method, url, redirect, kw)
            return SENTINEL
        self._depth += 1
        try:
            return super().urlopen(method, url, redirect=redirect, **kw)
        finally:
            self._depth -= 1


class CutProxyManager(ProxyManager):
    _depth = 0
    reentry = None

    def urlopen(self, method, url, redirect=True, **kw):
        if self._depth >= 1:
            self.reentry = (method, url, redirect, kw)
            return SENTINEL
        self._depth += 1
        try:
            return super().urlopen(method, url, redirect=redirect, **kw)
        finally:
            self._depth -= 1


class CutPool(HTTPConnectionPool):
    _depth = 0
    reentry = None
    NAMES = ("body", "headers", "retries", "redirect", "assert_same_host", "timeout", "pool_timeout", "release_conn")

    def urlopen(self, method, url, *a, **kw):
        kw = dict(kw)
        for name, v in zip(self.NAMES, a):
            kw[name] = v
        if self._depth >= 1:
            self.reentry = (method, url, kw.get("redirect", True), kw)
            return SENTINEL
        self._depth += 1
        try:
            return super().urlopen(method, url, **kw)
        finally:
            self._depth -= 1


def _fail(msg):
    from kit import h
    h.INFO["why"] = msg
    return False


# ---- policies ------------------------------------------------------------------------------------------------------
# spelled as the caller would: kind 0 None, 1 False, 2 int k, 3 Retry(redirect=k), 4 Retry(total=k), 5 Retry(total=k, redirect=j),
# 6 Retry(total=None, redirect=k), 7 True (documented: "same as the default"?) -- not used

def make_policy(kind, k, j, ror):
    if kind == 0:
        return None
    if kind == 1:
        return False
    if kind == 2:
        return k
    if kind == 3:
        return Retry(redirect=k, raise_on_redirect=ror)
    if kind == 4:
        return Retry(total=k, raise_on_redirect=ror)
    if kind == 5:
        return Retry(total=k, redirect=j, raise_on_redirect=ror)
    return Retry(total=None, redirect=k, raise_on_redirect=ror)


def budgets(kind, k, j, ror):
    """Reference reading of the documentation: (total, redirect, raises) of the policy, None = unlimited.
    False -> no redirects followed and the response is returned; an integer n -> total n."""
    if kind == 0:
        return (3, None, True)             # Retry.DEFAULT = Retry(3)
    if kind == 1:
        return (0, 0, False)
    if kind == 2:
        return (k, None, True)
    if kind == 3:
        return (10, k, ror)
    if kind == 4:
        return (k, None, ror)
    if kind == 5:
        return (k, j, ror)
    return (None, k, ror)


def _policy_body(front, layer, kind, k, j, ror, redirect_flag, status_i, req_kind, rk2):
    status = STATUSES[status_i]
    loc = LOCS[P.loc]
    peer = Peer(status, loc)
    netw = N.install(peer)
    E.install_clock()
    try:
        pol = make_policy(kind, k, j, ror)
        # layer 0: request argument; layer 1: constructor of the manager / pool, request passes nothing;
        # layer 2: both, the request-level one must win (constructor gets the *other* policy rk2/req_kind)
        ctor_kw = {}
        req_kw = {}
        if layer == 0:
            req_kw["retries"] = pol
            eff = (kind, k, j, ror)
        elif layer == 1:
            if pol is not None:
                ctor_kw["retries"] = pol
            eff = (kind, k, j, ror)
        else:
            # request-level wins over a constructor-level policy that says the opposite
            other = False if rk2 == 0 else Retry(redirect=5)
            ctor_kw["retries"] = other
            req_kw["retries"] = pol
            eff = (kind, k, j, ror) if pol is not None else ((1, 0, 0, True) if rk2 == 0 else (3, 5, 0, True))
        if front == 0:
            fe = CutManager(**ctor_kw)
            url = URL0
        elif front == 1:
            fe = CutProxyManager("http://proxy:3128", **ctor_kw)
            url = URL0
        else:
            fe = CutPool("a", 80, **ctor_kw)
            url = "/dir/page?x=1"
        resp = None
        exc = None
        try:
            if front == 2:
                resp = fe.urlopen("GET", url, redirect=redirect_flag, assert_same_host=False, **req_kw)
            else:
                resp = fe.urlopen("GET", url, redirect=redirect_flag, **req_kw)
        except HTTPError as e:
            exc = e
        seen = requests_seen(netw, peer)
        if len(seen) != 1:
            return _fail("%d requests on the wire for one hop" % len(seen))
        total, red, raises = budgets(*eff)
        is_redirect = status in REDIRECTING and bool(loc)
        if not is_redirect or not redirect_flag:
            # nothing to follow / following switched off: the response itself comes back, nothing else happens
            if fe.reentry is not None:
                return _fail("followed although redirect=%s status=%s Location=%r" % (redirect_flag, status, loc))
            if exc is not None or resp is None or resp is SENTINEL or resp.status != status:
                return _fail("expected the %d response back, got %r / %r" % (status, resp, exc))
            mark("not followed: flag or status")
            return True
        allowed = (total is None or total >= 1) and (red is None or red >= 1)
        if not allowed:
            if fe.reentry is not None:
                return _fail("policy %r exhausted but the redirect was followed to %r" % (eff, fe.reentry[1]))
            if raises:
                if not isinstance(exc, MaxRetryError):
                    return _fail("exhausted policy with raise_on_redirect: expected MaxRetryError, got %r / %r" % (resp, exc))
                mark("MaxRetryError")
            else:
                if exc is not None or resp is None or resp.status != status:
                    return _fail("exhausted policy without raise_on_redirect: expected the 3xx response, got %r / %r" % (resp, exc))
                mark("3xx returned")
            return True
        # allowed: exactly one re-entrant call with the budgets one lower
        if exc is not None:
            return _fail("budget left (%r) but raised %r" % (eff, exc))
        if fe.reentry is None or resp is not SENTINEL:
            return _fail("budget left (%r) but the redirect was not followed (resp=%r)" % (eff, resp))
        m2, url2, red2, kw2 = fe.reentry
        r2 = kw2.get("retries")
        if not isinstance(r2, Retry):
            return _fail("re-entrant call without a Retry object: %r" % (r2,))
        if total is not None and r2.total != total - 1:
            return _fail("total budget %r -> %r" % (total, r2.total))
        if total is None and r2.total is not None:
            return _fail("unlimited total became %r" % (r2.total,))
        if red is not None and r2.redirect != red - 1:
            return _fail("redirect budget %r -> %r" % (red, r2.redirect))
        if red is None and r2.redirect is not None:
            return _fail("unlimited redirect budget became %r" % (r2.redirect,))
        if r2.raise_on_redirect != raises:
            return _fail("raise_on_redirect changed to %r" % (r2.raise_on_redirect,))
        if red2 is not True and red2 != redirect_flag:
            return _fail("redirect flag lost")
        if isinstance(pol, Retry) and (pol.total != (k if kind in (4, 5) else (None if kind == 6 else 10))):
            return _fail("caller's Retry object was mutated")
        mark("followed")
        return True
    finally:
        N.uninstall()
        E.uninstall_clock()


def c05_policy(front: int, layer: int, kind: int, k: int, j: int, ror: bool, redirect_flag: bool, status_i: int,
               req_kind: int, rk2: int) -> bool:
    """
    pre: front == P.front and layer in P.layers and kind in P.kinds
    pre: 0 <= k and 0 <= j and (kind == 5 or j == 0) and (kind >= 2 or k == 0) and (P.kmax is None or k <= P.kmax)
    pre: kind >= 3 or ror
    pre: status_i in P.statuses and req_kind == 0 and 0 <= rk2 <= 1 and (layer == 2 or rk2 == 0)
    post: _
    """
    return run(_policy_body, front, layer, kind, k, j, ror, redirect_flag, status_i, req_kind, rk2)


# ---- the follow-up request -------------------------------------------------------------------------------------------

CONTENT_HEADERS = ["content-length", "content-type", "content-encoding", "content-language", "content-location"]
HDR_VARIANTS = [
    {"Content-Type": "text/x", "Content-Length": "3", "X-Keep": "1", "Accept": "a/b"},
    {"content-type": "text/x", "CONTENT-LENGTH": "3", "x-keep": "1", "Content-Language": "en", "content-ENCODING": "identity",
     "Content-Location": "/l"},
]
METHODS = ["GET", "POST", "PUT", "HEAD", "DELETE"]


def _location_body(front, status_i, loc_i, method_i, has_body, hv, container):
    status = STATUSES[status_i]
    loc = LOCS[loc_i]
    method = METHODS[method_i]
    peer = Peer(status, loc)
    netw = N.install(peer)
    E.install_clock()
    try:
        hdrs = dict(HDR_VARIANTS[hv])
        if not has_body:
            for n in list(hdrs):
                if n.lower() == "content-length":
                    del hdrs[n]        # a framing header must describe the body that is actually sent
        if container == 1:
            hdrs = HTTPHeaderDict(hdrs)
        import io
        body = (io.BytesIO(b"abc") if has_body == 2 else b"abc") if has_body else None
        if front == 0:
            fe = CutManager()
            url = URL0
        elif front == 1:
            fe = CutProxyManager("http://proxy:3128")
            url = URL0
        else:
            fe = CutPool("a", 80)
            url = "/dir/page?x=1"
        exc = None
        resp = None
        try:
            if front == 2:
                resp = fe.urlopen(method, url, body=body, headers=hdrs, assert_same_host=False)
            else:
                resp = fe.urlopen(method, url, body=body, headers=hdrs)
        except HTTPError as e:
            exc = e
        is_redirect = status in REDIRECTING and bool(loc)
        if not is_redirect:
            if fe.reentry is not None:
                return _fail("followed a non-redirect (%d, %r)" % (status, loc))
            if exc is None and resp is not None and resp is not SENTINEL and resp.status == status:
                mark("not a redirect")
                return True
            return _fail("status %d Location %r: expected the response back, got %r / %r" % (status, loc, resp, exc))
        if exc is not None or fe.reentry is None:
            return _fail("default policy: redirect %d -> %r not followed (%r)" % (status, loc, exc))
        m2, url2, red2, kw2 = fe.reentry
        # target: RFC 3986 resolution against the URL of the request that was redirected
        base = URL0
        want = urljoin(base, loc)
        if front == 2:
            # a single-host pool passes the Location on as given (same-host check is its caller's job: C06)
            if url2 != loc:
                return _fail("pool re-entered with %r for Location %r" % (url2, loc))
        elif url2 != want:
            return _fail("Location %r resolved to %r, RFC 3986 gives %r" % (loc, url2, want))
        h2 = kw2.get("headers")
        names2 = [str(n).lower() for n in (h2.keys() if h2 is not None else [])]
        if status == 303:
            if m2 != "GET":
                return _fail("303 must turn %s into GET, got %s" % (method, m2))
            if kw2.get("body") is not None:
                return _fail("303 kept the body")
            for c in CONTENT_HEADERS:
                if c in names2:
                    return _fail("303 kept content header %r" % c)
            for n in hdrs:
                if n.lower() not in CONTENT_HEADERS and n.lower() not in names2:
                    return _fail("303 dropped non-content header %r" % n)
            mark("303")
        else:
            if m2 != method:
                return _fail("%d changed the method %s -> %s" % (status, method, m2))
            if kw2.get("body") != body:
                return _fail("%d changed the body to %r" % (status, kw2.get("body")))
            if has_body == 2 and kw2.get("body_pos") != 0:
                # a file body was read to its end by the first hop: the follow-up must know where it started
                return _fail("%d: the follow-up request for a file body is given body_pos=%r, the body started at 0 (it would be "
                             "sent from there: empty or truncated)" % (status, kw2.get("body_pos")))
            for n in hdrs:
                if n.lower() not in names2:
                    return _fail("%d dropped header %r" % (status, n))
            mark("keep")
        return True
    finally:
        N.uninstall()
        E.uninstall_clock()


def location_dims(part):
    return [part["statuses"], part["locs"], part["methods"], [False, True, 2], [(0, 0), (1, 1)] if part["tie"] else [(0, 0), (0, 1), (1, 0), (1, 1)]]


def _location_point(idx):
    status_i, loc_i, method_i, has_body, (hv, container) = decode_point(idx, location_dims)
    return N._untraced(_location_body)(P.front, status_i, loc_i, method_i, has_body, hv, container)


def c05_location(idx: int) -> bool:
    """
    pre: 0 <= idx < P.n
    post: _
    """
    return run(_location_point, idx)


# ---- closed chains ---------------------------------------------------------------------------------------------------

class ChainPeer(N.BaseHandler):
    """Origins a, b, c: every request to origin X for /n is redirected to the next origin in `route` — an endless loop."""

    def __init__(self, route, status):
        self.route = route
        self.status = status
        self.state = {}
        self.count = 0

    def on_send(self, sock, data):
        st = self.state.setdefault(sock.id, {"got": b"", "answered": 0})
        st["got"] += data

    def on_read(self, sock):
        st = self.state.setdefault(sock.id, {"got": b"", "answered": 0})
        reqs, rest = N.parse_requests(st["got"])
        if len(reqs) > st["answered"]:
            st["answered"] += 1
            self.count += 1
            nxt = self.route[self.count % len(self.route)]
            return N.response_bytes(self.status, "X", headers=[("Location", "http://%s/n%d" % (nxt, self.count))], body=b"")
        return b""


def _chain_body(kind, k, j, ror, layer, route_i, status_i):
    status = STATUSES[status_i]
    route = [["a", "a"], ["a", "b"], ["a", "b", "c"]][route_i]
    peer = ChainPeer(route, status)
    N.install(peer)
    E.install_clock()
    try:
        pol = make_policy(kind, k, j, ror)
        total, red, raises = budgets(kind, k, j, ror)
        if layer == 0:
            pm = PoolManager()
            kw = {"retries": pol}
        else:
            pm = PoolManager(**({"retries": pol} if pol is not None else {}))
            kw = {}
        exc = None
        resp = None
        try:
            resp = pm.urlopen("GET", "http://a/n0", **kw)
        except HTTPError as e:
            exc = e
        budget = min(x for x in (total, red) if x is not None)
        followed = peer.count - 1
        if followed > budget:
            return _fail("policy %r: %d redirects followed, budget %d" % ((kind, k, j, ror), followed, budget))
        if followed != budget:
            return _fail("endless chain: %d followed but budget is %d" % (followed, budget))
        if raises and not isinstance(exc, MaxRetryError):
            return _fail("expected MaxRetryError at the end of the budget, got %r / %r" % (resp, exc))
        if not raises and (exc is not None or resp.status != status):
            return _fail("expected the last 3xx response, got %r / %r" % (resp, exc))
        mark("chain budget %d" % budget if budget < 4 else "chain")
        return True
    finally:
        N.uninstall()
        E.uninstall_clock()


def chain_dims(part):
    pols = []
    for kind in part["kinds"]:
        for k in (range(part["kmax"] + 1) if kind >= 2 else [0]):
            for j in (range(part["kmax"] + 1) if kind == 5 else [0]):
                for ror in ((True, False) if kind >= 3 else (True,)):
                    pols.append((kind, k, j, ror))
    return [pols, part["layers"], [0, 1, 2], part["statuses"]]


def _chain_point(idx):
    (kind, k, j, ror), layer, route_i, status_i = decode_point(idx, chain_dims)
    return N._untraced(_chain_body)(kind, k, j, ror, layer, route_i, status_i)


def c05_chain(idx: int) -> bool:
    """
    pre: 0 <= idx < P.n
    post: _
    """
    return run(_chain_point, idx)


# ---- a failed attempt in front of the redirect ----------------------------------------------------------------------------

class FaultChainPeer(N.BaseHandler):
    """The first attempt fails (refused connect / reset after the request was sent / 503), every later request is answered
    with a redirect to the next origin — an endless chain.  Logs every request target per origin."""

    def __init__(self, fault, status):
        self.fault = fault
        self.status = status
        self.state = {}
        self.count = 0            # requests answered with a redirect
        self.attempts = 0         # requests / connects seen at all
        self.targets = []

    def on_connect(self, net, sock):
        if self.fault == "connect" and self.attempts == 0:
            self.attempts += 1
            raise ConnectionRefusedError(111, "refused")

    def on_send(self, sock, data):
        st = self.state.setdefault(sock.id, {"got": b"", "answered": 0})
        st["got"] += data

    def on_read(self, sock):
        st = self.state.setdefault(sock.id, {"got": b"", "answered": 0})
        reqs, rest = N.parse_requests(st["got"])
        if len(reqs) > st["answered"]:
            r = reqs[st["answered"]]
            st["answered"] += 1
            self.attempts += 1
            self.targets.append((sock.address[0], r["target"].decode()))
            if self.attempts == 1 and self.fault == "reset":
                raise ConnectionResetError(104, "reset")
            if self.attempts == 1 and self.fault == "503":
                return N.response_bytes(503, "Busy", body=b"")
            self.count += 1
            nxt = ["a", "b"][self.count % 2]
            return N.response_bytes(self.status, "X", headers=[("Location", "http://%s/n%d" % (nxt, self.count))], body=b"")
        return b""


FAULTS = ["connect", "reset", "503"]


def _fault_body(front, fault_i, redirect_flag, red, ror, status_i, total):
    """A retry after a failed attempt is still the SAME request: the redirect flag and the redirect budget apply to it unchanged
    (only the total / error budgets are one lower)."""
    status = STATUSES[status_i]
    fault = FAULTS[fault_i]
    peer = FaultChainPeer(fault, status)
    N.install(peer)
    E.install_clock()
    try:
        pol = Retry(total=total, redirect=red, raise_on_redirect=ror, status_forcelist=[503], backoff_factor=0)
        exc = None
        resp = None
        try:
            if front == 2:
                fe = HTTPConnectionPool("a", 80)
                resp = fe.urlopen("GET", "/n0", redirect=redirect_flag, assert_same_host=False, retries=pol)
            else:
                fe = PoolManager() if front == 0 else ProxyManager("http://proxy:3128")
                resp = fe.urlopen("GET", "http://a/n0", redirect=redirect_flag, retries=pol)
        except HTTPError as e:
            exc = e
        where = "front %d, first attempt %s, redirect=%s, Retry(total=%d, redirect=%d, raise_on_redirect=%s), %d" % (
            front, fault, redirect_flag, total, red, ror, status)
        followed = max(peer.count - 1, 0)
        if total < 1:
            # no budget for the retry: the failure itself surfaces, nothing else happens
            if peer.count:
                return _fail("%s: request repeated without budget" % where)
            return True
        if not redirect_flag:
            if followed:
                return _fail("%s: redirect=False but %d redirect(s) were followed: %r" % (where, followed, peer.targets))
            if exc is not None or resp is None or resp.status != status:
                return _fail("%s: expected the %d response itself, got %r / %r" % (where, status, resp, exc))
            mark("retry then 3xx returned")
            return True
        if front == 2:
            # a bare pool stays on its host: the chain alternates a -> b, so following stops at HostChanged unless disabled; here
            # assert_same_host=False lets it follow on the same connection pool (documented behaviour of that switch)
            pass
        # The policy in effect allows min(redirect, total) redirects.  The failed first attempt has used one unit of `total`:
        # a bare pool deducts it (min(redirect, total - 1) redirects are left); PoolManager/ProxyManager keep their own copy
        # of the policy for the redirect hops, which the pool-level retry does not touch, so they may still follow
        # min(redirect, total).  The property bounds the number of redirects by the policy's budget: both are within it.
        upper = min(red, total)
        lower = min(red, total - 1)
        if followed > upper:
            return _fail("%s: %d redirects followed, the policy allows %d: %r" % (where, followed, upper, peer.targets))
        if followed < lower:
            return _fail("%s: only %d redirects followed although %d are left in the budget: %r" % (where, followed, lower, peer.targets))
        if front == 2 and followed != lower:
            return _fail("%s: bare pool followed %d redirects, %d are left after the retry" % (where, followed, lower))
        if ror and not isinstance(exc, MaxRetryError):
            return _fail("%s: expected MaxRetryError, got %r / %r" % (where, resp, exc))
        if not ror and (exc is not None or resp.status != status):
            return _fail("%s: expected the last 3xx response, got %r / %r" % (where, resp, exc))
        mark("retry then chain")
        return True
    finally:
        N.uninstall()
        E.uninstall_clock()


def fault_dims(part):
    return [[0, 1, 2], [0, 1, 2], [False, True], [0, 1, 2], [False, True], part["statuses"], [0, 1, 3]]


def _fault_point(idx):
    return N._untraced(_fault_body)(*decode_point(idx, fault_dims))


def c05_fault(idx: int) -> bool:
    """
    pre: 0 <= idx < P.n
    post: _
    """
    return run(_fault_point, idx)


DIMS = {"c05_location": location_dims, "c05_chain": chain_dims, "c05_fault": fault_dims}


def setup():
    """_make_request (connect, send, http.client's status/header parsing) only ever sees concrete data in these harnesses:
    method, target, headers and body are fixtures, and the Retry object with the symbolic budgets is merely stored on the
    response there.  It runs outside the tracer — same real code, just not interpreted opcode by opcode."""
    if not hasattr(HTTPConnectionPool._make_request, "__wrapped__"):
        HTTPConnectionPool._make_request = N._untraced(HTTPConnectionPool._make_request)


def JOBS(tier):
    quick = tier == "quick"
    t = 170 if quick else 900
    jobs = []
    for front in (0, 1, 2):
        for kind in range(7):
            for loc in ((1,) if quick else (0, 1, 5)):
                jobs.append({"func": "c05_policy", "timeout": t, "path_timeout": 60,
                             "part": {"front": front, "layers": [0, 1, 2], "kinds": [kind], "statuses": [1, 2, 3] if not quick else [1, 2],
                                      "kmax": 4 if kind == 2 else None, "loc": loc if front != 2 else 5}})
        jobs.append({"func": "c05_location", "timeout": t, "path_timeout": 60, "samples": 1,
                     "part": {"front": front, "statuses": list(range(len(STATUSES))), "locs": list(range(len(LOCS))), "tie": quick,
                              "methods": [0, 1, 3] if quick else [0, 1, 2, 3, 4]}})
    jobs.append({"func": "c05_chain", "timeout": t, "path_timeout": 90, "samples": 1,
                 "part": {"kinds": list(range(7)), "kmax": 3 if quick else 6, "layers": [0, 1], "statuses": [1, 3] if quick else [0, 1, 2, 3, 4]}})
    part = {"statuses": [1, 3] if quick else [0, 1, 2, 3, 4]}
    jobs.append({"func": "c05_fault", "timeout": t, "path_timeout": 90, "samples": 1, "part": part})
    return jobs


EVIDENCE = {
    "bounds": {"fault": "c05_fault: first attempt fails (refused connect / reset after send / 503 with forcelist), then an endless redirect "
                        "chain: 3 front-ends x redirect flag x redirect budget 0..2 x total {0,1,3} x raise_on_redirect x statuses",
               "quick": "one hop (re-entry cut) x 3 front-ends (PoolManager, ProxyManager over a forwarding proxy, bare pool) x 7 policy "
                        "spellings with UNBOUNDED integer budgets k,j >= 0 (plain-int spelling: k <= 4) x raise_on_redirect x 3 layers (request / constructor / both) x "
                        "redirect flag x {302,303}; follow-up request: 9 statuses x 13 Location forms x {GET,POST,HEAD} x body x 2 header "
                        "spellings (dict / HTTPHeaderDict); closed endless chains over 1-3 origins with budgets <= 3",
               "thorough": "statuses {302,303,307}, Location forms {same origin, other host, path}, all 5 methods, chain budgets <= 5 and all redirecting statuses"},
    "outside": ["redirect graphs beyond one hop + inductive budget decrement, except the closed chains of <= 5 hops",
                "tunnelled (https-through-proxy) redirects"],
    "stubs": ["create_connection -> MemSock", "clock constant", "logging disabled"],
    "assumptions": ["urllib.parse.urljoin is the RFC 3986 reference for resolving Location",
                    "one hop from an arbitrary policy state + budgets strictly decreasing => chains of any length stay within the budget"],
}
