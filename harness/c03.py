"""C03 — a response only ever contains bytes sent in reply to its own request.

c03_hist : a pool (maxsize 1..2) serves 2 (quick) / 3 (thorough) requests /r1, /r2, /r3 over pooled keep-alive connections.
           Symbolic per request: the server's behaviour (framing, keep-alive or close, stray bytes after a body-less or complete
           response, early EOF, garbage), the caller's disposal (read all, read k then release, release unread, drain, close,
           stream, stream one piece then release), the read amount k, and whether the unread remainder of a well-framed body is
           already at the client or still in flight when the next request checks the connection out.  Every body is tagged with
           its request id.  Asserts: whatever a response object hands to the caller is a prefix of the bytes scripted for ITS
           request (empty for HEAD/204/304) and its status is the scripted one; a connection whose previous exchange did not end
           cleanly, or that has bytes/EOF pending at checkout, never produces the next response (new socket or urllib3 error);
           no request is put on the wire more often than 1 + the retry budget.
"""
from __future__ import annotations

import gc

from kit.h import P, run, mark, known, concretize, decode_point
from kit import net as N
from kit import env as E

from urllib3 import HTTPConnectionPool
from urllib3.exceptions import HTTPError
from urllib3.util.retry import Retry

(B_CL, B_CL_CLOSE, B_CHUNKED, B_CLOSE_DELIM, B_204_STRAY, B_HEAD_STRAY, B_304_STRAY, B_CL_STRAY, B_EARLY_EOF, B_GARBAGE,
 B_CHUNKED_BADSIZE, B_CHUNKED_LIE, B_CL_NESTED, B_CHUNKED_TRAILER, B_GZIP_CORRUPT) = range(15)
BNAMES = ["CL keep-alive", "CL + Connection: close", "chunked", "close-delimited", "204 + stray bytes", "HEAD reply + stray bytes",
          "304 + stray bytes", "complete CL body + stray bytes", "early EOF inside the body", "garbage status line",
          "chunked with a malformed size line", "announces chunked, sends a malformed size line, rest (a well-formed message) follows later",
          "Content-Length body whose tail is itself a well-formed HTTP response",
          "chunked with a trailer section whose later lines look like a response head (slow peer: they arrive when asked for, or after the next request)",
          "Content-Encoding: gzip body that is not gzip; its second half (a well-formed response) is still in flight when decoding fails"]
D_READ, D_READK_RELEASE, D_RELEASE, D_DRAIN, D_CLOSE, D_STREAM, D_STREAM1_RELEASE, D_PRELOAD = range(8)
DNAMES = ["read()", "read(k)+release_conn()", "release_conn() unread", "drain_conn()", "close()", "stream() to the end",
          "one stream piece then release_conn()", "preload_content=True"]


def tag_body(i):
    return b"%d:" % i + bytes([97 + i]) * 8          # 10 bytes, attributable to request i


def stray(i):
    return b"HTTP/1.1 200 OK\r\nContent-Length: 8\r\n\r\nSTRAY-%d!" % i


def script(i, b):
    """(segments delivered in order, bytes that arrive LAST [remainder / stray], status, expected body, clean_end)"""
    body = tag_body(i)
    if b == B_CL:
        return [b"HTTP/1.1 200 OK\r\nContent-Length: 10\r\n\r\n" + body[:4], body[4:]], 200, body, True
    if b == B_CL_CLOSE:
        return [b"HTTP/1.1 200 OK\r\nContent-Length: 10\r\nConnection: close\r\n\r\n" + body[:4], body[4:], b""], 200, body, False
    if b == B_CHUNKED:
        return [b"HTTP/1.1 200 OK\r\nTransfer-Encoding: chunked\r\n\r\n4\r\n" + body[:4] + b"\r\n", b"6\r\n" + body[4:] + b"\r\n0\r\n\r\n"], 200, body, True
    if b == B_CLOSE_DELIM:
        return [b"HTTP/1.1 200 OK\r\nX: y\r\n\r\n" + body[:4], body[4:], b""], 200, body, False
    if b == B_204_STRAY:
        return [b"HTTP/1.1 204 No Content\r\nX: y\r\n\r\n", stray(i)], 204, b"", False
    if b == B_HEAD_STRAY:
        return [b"HTTP/1.1 200 OK\r\nContent-Length: 10\r\n\r\n", stray(i)], 200, b"", False
    if b == B_304_STRAY:
        return [b"HTTP/1.1 304 Not Modified\r\nContent-Length: 10\r\n\r\n", stray(i)], 304, b"", False
    if b == B_CL_STRAY:
        return [b"HTTP/1.1 200 OK\r\nContent-Length: 10\r\n\r\n" + body, stray(i)], 200, body, False
    if b == B_EARLY_EOF:
        return [b"HTTP/1.1 200 OK\r\nContent-Length: 10\r\n\r\n" + body[:4], b""], 200, body, False
    if b == B_GARBAGE:
        return [b"\x00\x01 garbage\r\n\r\n", b""], None, b"", False
    if b == B_CHUNKED_BADSIZE:
        return [b"HTTP/1.1 200 OK\r\nTransfer-Encoding: chunked\r\n\r\n4\r\n" + body[:4] + b"\r\nZZ\r\n" + body[4:] + b"\r\n0\r\n\r\n"], 200, body, False
    if b == B_GZIP_CORRUPT:
        stale = b"HTTP/1.1 206 Stale\r\nContent-Length: 0\r\n\r\n"
        first = b"\x1f\x8b\x08\x00 this is not a deflate stream"
        return [b"HTTP/1.1 200 OK\r\nContent-Encoding: gzip\r\nContent-Length: %d\r\n\r\n" % (len(first) + len(stale)) + first,
                stale], 200, b"", True
    if b == B_CHUNKED_TRAILER:
        # one message: chunks, last-chunk, three trailer lines, empty line.  Everything belongs to request i.
        return [b"HTTP/1.1 200 OK\r\nTransfer-Encoding: chunked\r\n\r\nA\r\n" + body + b"\r\n0\r\nX-Trailer: 1\r\n",
                b"HTTP/1.1 206 Stale\r\nContent-Length: 0\r\n\r\n"], 200, body, True
    fake = b"HTTP/1.1 200 OK\r\nContent-Length: 10\r\n\r\n" + body       # everything here still belongs to request i
    if b == B_CHUNKED_LIE:
        return [b"HTTP/1.1 200 OK\r\nTransfer-Encoding: chunked\r\n\r\nZZ\r\n", fake], 200, b"", True
    nested = body[:4] + fake
    return [b"HTTP/1.1 200 OK\r\nContent-Length: %d\r\n\r\n" % len(nested) + nested[:4], nested[4:]], 200, nested, True


class TagPeer(N.BaseHandler):
    def __init__(self, behaviours, lates):
        self.behaviours = behaviours     # request id -> behaviour
        self.lates = lates               # request id -> remainder of the response only arrives after the NEXT request was sent
        self.state = {}
        self.served = []                 # (request id, sock id)
        self.counts = {}

    def _st(self, sock):
        return self.state.setdefault(sock.id, {"got": b"", "answered": 0, "queue": [], "held": None, "eof": False})

    def on_send(self, sock, data):
        st = self._st(sock)
        st["got"] += data

    def _pump(self, sock):
        st = self._st(sock)
        try:
            reqs, rest = N.parse_requests(st["got"])
        except N.ParseError:
            return
        while len(reqs) > st["answered"]:
            r = reqs[st["answered"]]
            st["answered"] += 1
            # anything still held back from the previous exchange is now released first (it was in flight)
            if st["held"] is not None:
                st["queue"].extend(st["held"])
                st["held"] = None
            t = r["target"].decode()
            rid = int(t[2:]) if t.startswith("/r") else 0
            self.served.append((rid, sock.id))
            self.counts[rid] = self.counts.get(rid, 0) + 1
            segs, status, body, clean = script(rid, self.behaviours.get(rid, B_CL))
            if self.lates.get(rid) and len(segs) >= 2 and clean:
                st["queue"].append(segs[0])
                st["held"] = list(segs[1:])
                # a slow peer rather than a stalling one: the held bytes also arrive when the client waits for them
                st["lazy"] = self.behaviours.get(rid, B_CL) == B_CHUNKED_TRAILER
            else:
                st["queue"].extend(segs)

    def on_read(self, sock):
        st = self._st(sock)
        self._pump(sock)
        if st["eof"]:
            return b""
        if st["queue"]:
            seg = st["queue"].pop(0)
            if seg == b"":
                st["eof"] = True
            return seg
        if st.get("lazy") and st["held"]:
            st["queue"].extend(st["held"])
            st["held"] = None
            return st["queue"].pop(0)
        return b""     # a keep-alive peer would block here; nothing in the harness reads past a complete message

    def readable(self, sock):
        st = self._st(sock)
        self._pump(sock)
        return bool(st["queue"]) or st["eof"]


def _fail(msg):
    from kit import h
    h.INFO["why"] = msg
    return False


def consume(resp, d, k, pieces):
    """Appends to `pieces` what the caller obtained from this response object (kept when a read raises half-way)."""
    if d in (D_READ, D_PRELOAD):
        pieces.append(resp.read() if d == D_READ else resp.data)
    elif d == D_READK_RELEASE:
        pieces.append(resp.read(k))
        resp.release_conn()
    elif d == D_RELEASE:
        resp.release_conn()
    elif d == D_DRAIN:
        resp.drain_conn()
    elif d == D_CLOSE:
        resp.close()
    elif d == D_STREAM:
        for p in resp.stream(3):
            pieces.append(p)
    elif d == D_STREAM1_RELEASE:
        it = resp.stream(3)
        p = next(it, None)
        if p is not None:
            pieces.append(p)
        resp.release_conn()
    return pieces


def _hist_body(maxsize, b1, d1, k1, late1, b2, d2, k2, late2, b3, d3, k3, retry2, drops=("keep", "keep")):
    n = P.n
    drop_of = {1: drops[0], 2: drops[1], 3: "keep"}
    bs = {1: b1, 2: b2, 3: b3}
    ds = {1: d1, 2: d2, 3: d3}
    ks = {1: k1, 2: k2, 3: k3}
    peer = TagPeer(bs, {1: late1, 2: late2})
    netw = N.install(peer)
    E.install_clock()
    try:
        pool = HTTPConnectionPool("h", 80, maxsize=maxsize, block=False)
        held = []      # response objects still alive (a later read on them must also stay within their own bytes)
        for i in range(1, n + 1):
            b = bs[i]
            d = ds[i]
            method = "HEAD" if b == B_HEAD_STRAY else "GET"
            retries = Retry(total=2, backoff_factor=0) if (i > 1 and retry2) else False
            exc = None
            resp = None
            try:
                resp = pool.urlopen(method, "/r%d" % i, preload_content=(d == D_PRELOAD), retries=retries)
            except HTTPError as e:
                exc = e
            segs, status, body, clean = script(i, b)
            if exc is None:
                # a response was produced for request i: it must be the one scripted for i
                if status is None:
                    return _fail("request %d (%s) produced a response although the peer sent garbage" % (i, BNAMES[b]))
                if resp.status != status:
                    return _fail("request %d got status %r, the peer's answer to it has %r (%s)" % (i, resp.status, status, BNAMES[b]))
                pieces = []
                try:
                    consume(resp, d, ks[i], pieces)
                except HTTPError:
                    pass
                got = b"".join(p for p in pieces if p)
                if not body.startswith(got):
                    return _fail("request %d (%s, %s) delivered %r, which is not a prefix of its own body %r"
                                 % (i, BNAMES[b], DNAMES[d], got, body))
                if drop_of[i] == "drop":
                    resp = None
                    gc.collect()
                    mark("response object dropped")
                else:
                    if drop_of[i] == "close":
                        resp.close()
                    held.append((i, resp, body, got))
                mark("response %d" % i)
            else:
                mark("error %d" % i)
            # how often did request i go on the wire?
            budget = 1 + (2 if (i > 1 and retry2) else 0)
            if peer.counts.get(i, 0) > budget:
                return _fail("request %d was sent %d times, budget %d" % (i, peer.counts[i], budget))
        # late reads on earlier response objects still only yield their own bytes
        for (i, resp, body, got) in held:
            try:
                more = resp.read()
            except (HTTPError, ValueError):
                more = b""
            if more and not body.startswith(got + more):
                return _fail("a later read on response %d returned %r after %r: not its own body %r" % (i, more, got, body))
        return True
    finally:
        N.uninstall()
        E.uninstall_clock()


def _opts(bs, ds, ks, late_ok):
    out = []
    for b in bs:
        for d in ds:
            if b == B_GARBAGE and d != D_READ:
                continue
            for k in (ks if d == D_READK_RELEASE else ks[:1]):
                lates = [False]
                if late_ok and ((d in (1, 2, 6) and b in (0, 2, 12)) or (b == 11 and d in (0, 1, 3, 5)) or b == B_CHUNKED_TRAILER or (b == B_GZIP_CORRUPT and d in (0, 1, 3, 5, 6, 7))):
                    lates = [False, True]
                # what happens to the response OBJECT afterwards: kept alive (http.client then refuses to reuse the connection
                # while it is unread), dropped (garbage-collected), or closed
                drops = ["keep", "drop", "close"] if d in (D_READK_RELEASE, D_RELEASE, D_STREAM1_RELEASE) else ["keep"]
                for late in lates:
                    for drop in drops:
                        out.append((b, d, k, late, drop))
    return out


def hist_dims(part):
    dims = [list(range(1, part["maxsize"] + 1)), _opts(part["b1s"], part["d1s"], part["ks"], True),
            _opts(part["b2s"], part["d2s"], part["ks"], part["n"] >= 3), [False, True]]
    if part["n"] >= 3:
        dims.append(_opts(part["b3s"], part["d3s"], [3], False))
    return dims


def _hist_point(idx):
    vals = decode_point(idx, hist_dims)
    maxsize, (b1, d1, k1, late1, drop1), (b2, d2, k2, late2, drop2), retry2 = vals[:4]
    b3, d3, k3 = (vals[4][0], vals[4][1], vals[4][2]) if len(vals) > 4 else (0, 0, 0)
    return N._untraced(_hist_body)(maxsize, b1, d1, k1, late1, b2, d2, k2, late2, b3, d3, k3, retry2, (drop1, drop2))


def c03_hist(idx: int) -> bool:
    """
    pre: 0 <= idx < P.npoints
    post: _
    """
    return run(_hist_point, idx)


DIMS = {"c03_hist": hist_dims}


def JOBS(tier):
    from kit.h import space_size
    quick = tier == "quick"
    t = 170 if quick else 900
    jobs = []
    allb = list(range(15))
    alld = list(range(8))

    def add(part):
        part["npoints"] = space_size(hist_dims(part))
        jobs.append({"func": "c03_hist", "timeout": t, "path_timeout": 60, "samples": 1, "part": part})
    for b1 in allb:
        add({"n": 2, "maxsize": 1 if quick else 2, "b1s": [b1], "d1s": alld, "b2s": allb if not quick else [0, 2, 4, 5, 8, 11],
             "d2s": [D_READ, D_READK_RELEASE, D_PRELOAD, D_STREAM] if quick else alld, "ks": [3, 4] if quick else [0, 3, 4, 10, 11],
             "b3s": [0], "d3s": [0]})
    if not quick:
        for b1 in (B_CL, B_CHUNKED, B_204_STRAY, B_CL_STRAY, B_EARLY_EOF, B_CL_NESTED, B_CHUNKED_LIE):
            for b2 in (B_CL, B_CHUNKED, B_HEAD_STRAY, B_CL_NESTED):
                add({"n": 3, "maxsize": 2, "b1s": [b1], "d1s": [D_READK_RELEASE, D_RELEASE, D_STREAM1_RELEASE, D_READ], "b2s": [b2],
                     "d2s": [D_READK_RELEASE, D_RELEASE, D_READ], "ks": [3, 4], "b3s": [B_CL, B_CHUNKED, B_204_STRAY],
                     "d3s": [D_READ, D_PRELOAD]})
    return jobs


EVIDENCE = {
    "bounds": {"quick": "histories of 2 requests on a pool of maxsize 1: first request = every (server behaviour x caller disposal) pair of 15 "
                        "behaviours x 8 disposals, remainder in flight or delivered; second request = 6 behaviours x {read, read(k)+release, "
                        "preload, stream} x retries on/off; every history is one solver model of a single index variable",
               "thorough": "maxsize <= 2, every behaviour and disposal for both requests, k in {0,3,10,11}; histories of 3 requests for 60 first-two "
                           "combinations"},
    "outside": ["a peer that injects unsolicited bytes while the client is already waiting for the next response (no client can tell)",
                "pipelining (not a urllib3 feature)", "more than 3 requests"],
    "stubs": ["create_connection -> MemSock with a scripted tagging peer", "wait_for_read -> peer has bytes / EOF pending", "clock constant",
              "logging disabled"],
    "assumptions": ["bodies are tagged with their request id, so any byte delivered can be attributed"],
}
