"""C19 — socket waits never exceed the configured timeouts (unit level + pool level)."""
from __future__ import annotations

from kit.h import P, run, mark, known
import urllib3.util.timeout as T
from urllib3.util.timeout import Timeout, _DEFAULT_TIMEOUT


class Clock:
    def __init__(self, samples):
        self.samples = list(samples)
        self.i = 0

    def monotonic(self):
        v = self.samples[min(self.i, len(self.samples) - 1)]
        self.i += 1
        return v


class _TimeStub:
    def __init__(self, clock):
        self.monotonic = clock.monotonic


def _val(kind, v):
    return _DEFAULT_TIMEOUT if kind == 0 else (None if kind == 1 else v)


def _unit_body(tk, tv, ck, cv, rk, rv, t0, dt):
    total, connect, read = _val(tk, tv), _val(ck, cv), _val(rk, rv)
    clock = Clock([t0, t0 + dt])
    saved = T.time
    T.time = _TimeStub(clock)
    try:
        to = Timeout(total=total, connect=connect, read=read)
        c2 = to.clone()
        # connect phase: min(connect, total)
        ct = to.connect_timeout
        if tk == 2 and ck == 2:
            exp_c = cv if cv < tv else tv
        elif tk == 2:
            exp_c = tv
        elif tk == 1:
            exp_c = connect
        else:
            exp_c = connect
        if not (ct is exp_c or ct == exp_c):
            return False
        to.start_connect()
        rt = to.read_timeout
        if tk == 2 and rk == 2:
            rem = tv - dt
            e = rem if rem < rv else rv
            exp_r = e if e > 0 else 0
            mark("total+read")
        elif tk == 2:
            rem = tv - dt
            exp_r = rem if rem > 0 else 0
            mark("total only")
        else:
            exp_r = T.getdefaulttimeout() if rk == 0 else read
        if not (rt is exp_r or rt == exp_r):
            return False
        if rt is not None and rt is not _DEFAULT_TIMEOUT and rt < 0:
            return False
        # never looser than configured
        if rk == 2 and rt is not None and rt > rv:
            return False
        if tk == 2 and rt is not None and rt > tv:
            return False
        # clone does not share the started clock and keeps every field
        if c2._start_connect is not None:
            return False
        if not (c2._connect is to._connect and c2._read is to._read and c2.total is to.total):
            return False
        c3 = to.clone()
        if c3._start_connect is not None:
            return False
        return True
    finally:
        T.time = saved


def c19_unit_int(tk: int, tv: int, ck: int, cv: int, rk: int, rv: int, t0: int, dt: int) -> bool:
    """
    pre: 1 <= tk <= 2 and 0 <= ck <= 2 and 0 <= rk <= 2
    pre: tv > 0 and cv > 0 and rv > 0
    pre: dt >= 0
    post: _
    """
    return run(_unit_body, tk, tv, ck, cv, rk, rv, t0, dt)


def _invalid_body(which, kind, iv):
    # invalid values must be rejected at construction
    if kind == 0:
        bad = iv            # int <= 0 (pre)
    elif kind == 1:
        bad = True
    elif kind == 2:
        bad = False
    elif kind == 3:
        bad = "x"
    else:
        bad = object()
    kw = {["total", "connect", "read"][which]: bad}
    try:
        Timeout(**kw)
    except ValueError:
        mark("rejected")
        return True
    return False


def c19_invalid(which: int, kind: int, iv: int) -> bool:
    """
    pre: 0 <= which <= 2 and 0 <= kind <= 4
    pre: -3 <= iv <= 0
    post: _
    """
    return run(_invalid_body, which, kind, iv)




# ---- pool level ---------------------------------------------------------------------------------------------

from kit import net as N
from kit import env as E
from urllib3.connectionpool import HTTPConnectionPool
from urllib3.exceptions import ReadTimeoutError, HTTPError


class ConnClock:
    """Virtual clock of the pool-level harness: time only passes while a TCP connect is in progress (by the symbolic connect
    duration), so WHERE in the code the clock is read matters — a budget computed before the connect happened is wrong."""

    def __init__(self, t0):
        self.now = t0
        self.sleeps = []

    def monotonic(self):
        return self.now

    def time(self):
        return 1_700_000_000

    def sleep(self, s):
        self.sleeps.append(s)

    def __getattr__(self, name):
        import time as _t
        return getattr(_t, name)


class OkPeer(N.BaseHandler):
    def __init__(self):
        self.reads = 0
        self.answered = {}
        self.clock = None
        self.dt = 0

    def on_connect(self, net, sock):
        if self.clock is not None:
            self.clock.now = self.clock.now + self.dt

    early = False          # True: the reply is already pending in the socket when the client starts waiting for it

    def _heads(self, sock):
        return [h for h in bytes(sock.tx).split(b"\r\n\r\n")[:-1]]

    def on_read(self, sock):
        heads = self._heads(sock)
        a = self.answered.get(sock.id, 0)
        if a >= len(heads):
            self.reads += 1
            return b""
        self.answered[sock.id] = a + 1
        if heads[a].startswith(b"CONNECT "):
            return b"HTTP/1.0 200 Connection established\r\n\r\n"
        self.reads += 1
        return b"HTTP/1.1 200 OK\r\nContent-Length: 2\r\n\r\nok"

    def readable(self, sock):
        return self.early and self.answered.get(sock.id, 0) < len(self._heads(sock))


def _fail(msg):
    from kit import h
    h.INFO["why"] = msg
    return False


def _expected(tk, tv, ck, cv, rk, rv, dt):
    """(connect timeout, read timeout) from the documentation: min(connect,total); min(read, total - elapsed)."""
    if tk == 2 and ck == 2:
        ec = cv if cv < tv else tv
    elif tk == 2:
        ec = tv
    else:
        ec = None if ck != 2 else cv           # unset -> socket default (None), None -> None
    if tk == 2:
        rem = tv - dt
        if rk == 2 and rv < rem:
            rem = rv
        er = rem if rem > 0 else 0
    else:
        er = rv if rk == 2 else None
    return ec, er


def _pool_body(tk, tv, ck, cv, rk, rv, t0, dt, req_level, ptk, ptv, legacy, second, early=False):
    tunnel = bool(P.get("tunnel", False))
    peer = OkPeer()
    peer.early = early
    netw = N.install(peer)
    clock = E.install_clock(ConnClock(t0))
    peer.clock = clock
    peer.dt = dt
    if tunnel:
        from kit import tls as TL
        saved_name_ok = TL._name_ok
        TL._name_ok = lambda cert, hostname, cn: True
        TL.install(TL.Script({}, TL.Cert("default", (("DNS", "*"),))), "ssl", True)
    try:
        total, connect, read = _val(tk, tv), _val(ck, cv), _val(rk, rv)
        if P.get("plain_none"):
            # the plain value None ("no timeout at all"), not a Timeout object
            to = None
            tk, ck, rk = 1, 1, 1
            legacy = True            # (no Timeout object of the caller's to look at afterwards)
        elif legacy:
            # legacy number instead of a Timeout object: same value for connect and read, no total
            to = cv
            tk, ck, rk, rv = 1, 2, 2, cv
        else:
            to = Timeout(total=total, connect=connect, read=read)
        def make_pool(t):
            if tunnel:
                # https through an http proxy: the TCP connect to the proxy and the CONNECT exchange happen inside urlopen,
                # before _make_request — they are the connect phase of THIS request
                from urllib3 import ProxyManager
                pm = ProxyManager("http://proxy.example:3128", timeout=t, cert_reqs="CERT_NONE")
                return pm.connection_from_url("https://h/")
            return HTTPConnectionPool("h", 80, timeout=t)
        if req_level:
            pool_to = Timeout(total=_val(ptk, ptv), connect=1, read=1)     # must be fully overridden
            pool = make_pool(pool_to)
            kw = {"timeout": to}
        else:
            pool = make_pool(to)
            kw = {}
        ec, er = _expected(tk, tv, ck, cv, rk, rv, dt)
        exc = None
        try:
            r = pool.urlopen("GET", "/", retries=False, **kw)
        except Exception as e:
            exc = e
        dial = netw.dials[0]
        from urllib3.util.timeout import _DEFAULT_TIMEOUT
        dial_to = None if dial[1] is _DEFAULT_TIMEOUT else dial[1]       # "socket default" sentinel = no timeout set here
        if not (dial_to is ec or dial_to == ec):
            return _fail("connect phase timeout %r, expected %r" % (dial_to, ec))
        sock = netw.socks[0]
        if er is not None and er == 0:
            mark("zero read budget")
            if not isinstance(exc, ReadTimeoutError):
                return _fail("remaining read budget 0 but got %r" % (exc,))
            if peer.reads:
                return _fail("waited for the response although the read budget was 0")
            return True
        if exc is not None:
            return _fail("unexpected %r" % (exc,))
        # the timeout in force when the response wait started
        last = None
        for ev in sock.events:
            if ev[0] == "settimeout":
                last = ev[1]
        if not (last is er or last == er):
            return _fail("response wait timeout %r, expected %r" % (last, er))
        if er is not None:
            if er < 0:
                return _fail("negative timeout")
            if rk == 2 and er > rv:
                return _fail("looser than read")
            if tk == 2 and er > tv:
                return _fail("looser than total")
            mark("read timeout applied")
        # one request's clock never influences another's: the pool's own object is never started
        if pool.timeout._start_connect is not None:
            return _fail("pool-level Timeout object was started")
        if (not legacy) and to._start_connect is not None:
            return _fail("caller's Timeout object was started")
        if second:
            clock.now = clock.now + 1000
            # the connection is reused: no connect phase, nothing has elapsed when the response wait starts
            ec2, er = _expected(tk, tv, ck, cv, rk, rv, 0)
            n_before = len(sock.events)
            try:
                pool.urlopen("GET", "/", retries=False, **kw)
            except Exception as e:
                return _fail("second request: %r" % (e,))
            last2 = None
            for ev in sock.events[n_before:]:
                if ev[0] == "settimeout":
                    last2 = ev[1]
            if len(netw.socks) != 1:
                return _fail("second request did not reuse the connection")
            if not (last2 is er or last2 == er):
                return _fail("second request's response wait timeout %r, expected %r (clock leaked?)" % (last2, er))
            mark("second request")
        return True
    finally:
        N.uninstall()
        E.uninstall_clock()
        if tunnel:
            TL.uninstall()
            TL._name_ok = saved_name_ok


def c19_pool(tk: int, tv: int, ck: int, cv: int, rk: int, rv: int, t0: int, dt: int, req_level: bool, ptk: int,
             ptv: int, legacy: bool, second: bool, early: bool) -> bool:
    """
    pre: 1 <= tk <= 2 and 0 <= ck <= 2 and 0 <= rk <= 2
    pre: tv > 0 and cv > 0 and rv > 0 and ptv > 0 and 1 <= ptk <= 2
    pre: dt >= 0
    pre: legacy == P.legacy and req_level == P.req_level and early == P.early
    post: _
    """
    return run(_pool_body, tk, tv, ck, cv, rk, rv, t0, dt, req_level, ptk, ptv, legacy, second, early)


def _unit_float_body(tv, rv, dt):
    """Same arithmetic with finite floats; the oracle uses the same float expression order."""
    clock = Clock([0.0, dt])
    saved = T.time
    T.time = _TimeStub(clock)
    try:
        to = Timeout(total=tv, read=rv)
        to.start_connect()
        rt = to.read_timeout
        rem = tv - (dt - 0.0)
        e = rem if rem < rv else rv
        exp = e if e > 0 else 0
        return rt == exp and rt >= 0 and rt <= rv and rt <= tv
    finally:
        T.time = saved


def c19_unit_float(tv: float, rv: float, dt: float) -> bool:
    """
    pre: math.isfinite(tv) and math.isfinite(rv) and math.isfinite(dt)
    pre: tv > 0 and rv > 0 and dt >= 0
    post: _
    """
    return run(_unit_float_body, tv, rv, dt)


import math


def JOBS(tier):
    t = 120 if tier == "quick" else 600
    jobs = [
        {"func": "c19_unit_int", "part": {}, "timeout": t},
        {"func": "c19_unit_float", "part": {}, "timeout": t},
        {"func": "c19_invalid", "part": {}, "timeout": t},
    ]
    for req_level in (False, True):
        jobs.append({"func": "c19_pool", "part": {"legacy": True, "req_level": req_level, "early": False, "plain_none": True},
                     "timeout": t, "path_timeout": 60})
    for legacy in (False, True):
        for req_level in (False, True):
            for early in (False, True):
                jobs.append({"func": "c19_pool", "part": {"legacy": legacy, "req_level": req_level, "early": early}, "timeout": t,
                             "path_timeout": 60})
                if not legacy:
                    jobs.append({"func": "c19_pool", "part": {"legacy": legacy, "req_level": req_level, "early": early, "tunnel": True},
                                 "timeout": t, "path_timeout": 60})
    return jobs


EVIDENCE = {
    "bounds": {"quick": "unit: total/connect/read each unset|None|any positive int (unbounded), clock samples any ints t0<=t1; floats: "
                        "any finite positive total/read/elapsed; invalid values {int<=0 in -3..0, True, False, str, object}; pool "
                        "level: same symbolic ints through HTTPConnectionPool.urlopen on the in-memory net, pool- vs request-level "
                        "placement, legacy number, plain None, second request on the reused connection, reply already pending when the wait starts "
                        "or not; the same for https through an http proxy (TCP connect + CONNECT exchange happen before _make_request)",
               "thorough": "same, larger budget"},
    "outside": ["NaN/inf timeouts", "non-monotone clocks", "Timeout(total=<sentinel>)"],
    "stubs": ["time.monotonic inside util.timeout -> scripted symbolic samples", "in-memory net"],
    "assumptions": ["the wait applied to a phase is the value passed to create_connection / the last settimeout before the read"],
}
