"""C19 — socket waits never exceed the configured timeouts (unit level + pool level)."""
from __future__ import annotations

from kit.h import P, run, mark, known
import urllib3.util.timeout as T
from urllib3.util.timeout import Timeout, _DEFAULT_TIMEOUT


class Clock:
    def __init__(self, samples):
        self.samples = list(samples)
        self.i = 0

    def monotonic(self):
        v = self.samples[min(self.i, len(self.samples) - 1)]
        self.i += 1
        return v


class _TimeStub:
    def __init__(self, clock):
        self.monotonic = clock.monotonic


def _val(kind, v):
    return _DEFAULT_TIMEOUT if kind == 0 else (None if kind == 1 else v)


def _unit_body(tk, tv, ck, cv, rk, rv, t0, dt):
    total, connect, read = _val(tk, tv), _val(ck, cv), _val(rk, rv)
    clock = Clock([t0, t0 + dt])
    saved = T.time
    T.time = _TimeStub(clock)
    try:
        to = Timeout(total=total, connect=connect, read=read)
        c2 = to.clone()
        # connect phase: min(connect, total)
        ct = to.connect_timeout
        if tk == 2 and ck == 2:
            exp_c = cv if cv < tv else tv
        elif tk == 2:
            exp_c = tv
        elif tk == 1:
            exp_c = connect
        else:
            exp_c = connect
        if not (ct is exp_c or ct == exp_c):
            return False
        to.start_connect()
        rt = to.read_timeout
        if tk == 2 and rk == 2:
            rem = tv - dt
            e = rem if rem < rv else rv
            exp_r = e if e > 0 else 0
            mark("total+read")
        elif tk == 2:
            rem = tv - dt
            exp_r = rem if rem > 0 else 0
            mark("total only")
        else:
            exp_r = T.getdefaulttimeout() if rk == 0 else read
        if not (rt is exp_r or rt == exp_r):
            return False
        if rt is not None and rt is not _DEFAULT_TIMEOUT and rt < 0:
            return False
        # never looser than configured
        if rk == 2 and rt is not None and rt > rv:
            return False
        if tk == 2 and rt is not None and rt > tv:
            return False
        # clone does not share the started clock and keeps every field
        if c2._start_connect is not None:
            return False
        if not (c2._connect is to._connect and c2._read is to._read and c2.total is to.total):
            return False
        c3 = to.clone()
        if c3._start_connect is not None:
            return False
        return True
    finally:
        T.time = saved


def c19_unit_int(tk: int, tv: int, ck: int, cv: int, rk: int, rv: int, t0: int, dt: int) -> bool:
    """
    pre: 1 <= tk <= 2 and 0 <= ck <= 2 and 0 <= rk <= 2
    pre: tv > 0 and cv > 0 and rv > 0
    pre: dt >= 0
    post: _
    """
    return run(_unit_body, tk, tv, ck, cv, rk, rv, t0, dt)


def _invalid_body(which, kind, iv):
    # invalid values must be rejected at construction
    if kind == 0:
        bad = iv            # int <= 0 (pre)
    elif kind == 1:
        bad = True
    elif kind == 2:
        bad = False
    elif kind == 3:
        bad = "x"
    else:
        bad = object()
    kw = {["total", "connect", "read"][which]: bad}
    try:
        Timeout(**kw)
    except ValueError:
        mark("rejected")
        return True
    return False


def c19_invalid(which: int, kind: int, iv: int) -> bool:
    """
    pre: 0 <= which <= 2 and 0 <= kind <= 4
    pre: -3 <= iv <= 0
    post: _
    """
    return run(_invalid_body, which, kind, iv)


def JOBS(tier):
    t = 60 if tier == "quick" else 300
    return [
        {"func": "c19_unit_int", "part": {}, "timeout": t},
        {"func": "c19_invalid", "part": {}, "timeout": t},
    ]
