"""C04 — retries respect every budget, spare non-idempotent requests, and terminate.

R  c04_increment : Retry.increment alone, counters are UNBOUNDED symbolic ints (partition: event kind x set of
                   non-None counters) — measure, classification, exhaustion, immutability, same-object re-raise.
   c04_from_int  : Retry.from_int mapping.   c04_is_retry : is_retry truth table.
S  c04_sleep     : every sleep lies in [0, backoff_max] or is the Retry-After of a 413/429/503.
U  c04_attempt   : pool.urlopen, ONE attempt (re-entry cut) with a spying Retry: classification of faults per
                   topology, one increment per failed attempt, re-entry carries that object, retries=False re-raises.
L  c04_loop      : closed loop with tiny budgets: requests on the wire <= 1 + budget; POST not re-sent after read faults.
"""
from __future__ import annotations

import errno
import socket

from kit.h import P, run, mark, known
from kit import net as N
from kit import env as E

import urllib3
from urllib3.exceptions import (ConnectTimeoutError, NewConnectionError, ProxyError, ReadTimeoutError, ProtocolError,
                                SSLError, MaxRetryError, ResponseError, HTTPError, InvalidHeader)
from urllib3.util.retry import Retry
from urllib3.connectionpool import HTTPConnectionPool
from urllib3._collections import HTTPHeaderDict

FIELDS = ["total", "connect", "read", "redirect", "status", "other"]
EVENTS = ["connect_timeout", "new_connection", "proxy_connect", "proxy_other", "read_timeout", "protocol", "ssl",
          "redirect", "status"]
CATEGORY = {"connect_timeout": "connect", "new_connection": "connect", "proxy_connect": "connect",
            "proxy_other": "other", "read_timeout": "read", "protocol": "read", "ssl": "other",
            "redirect": "redirect", "status": "status"}


class FakeResponse:
    def __init__(self, status, location=None, retry_after=None):
        self.status = status
        self.headers = HTTPHeaderDict()
        if location is not None:
            self.headers["Location"] = location
        if retry_after is not None:
            self.headers["Retry-After"] = retry_after
        self._loc = location

    def get_redirect_location(self):
        if self.status in (301, 302, 303, 307, 308):
            return self._loc
        return False


def make_event(name):
    if name == "connect_timeout":
        return ConnectTimeoutError(None, "x"), None
    if name == "new_connection":
        return NewConnectionError(None, "x"), None
    if name == "proxy_connect":
        return ProxyError("p", ConnectTimeoutError(None, "x")), None
    if name == "proxy_other":
        return ProxyError("p", OSError("reset")), None
    if name == "read_timeout":
        return ReadTimeoutError(None, "/", "x"), None
    if name == "protocol":
        return ProtocolError("Connection aborted.", OSError("x")), None
    if name == "ssl":
        return SSLError("bad"), None
    if name == "redirect":
        return None, FakeResponse(302, "/next")
    if name == "status":
        return None, FakeResponse(503)
    raise AssertionError(name)


def _fail(msg):
    from kit import h
    h.INFO["why"] = msg
    return False


def _state(r):
    return (r.total, r.connect, r.read, r.redirect, r.status, r.other, r.allowed_methods, r.status_forcelist,
            r.backoff_factor, r.backoff_max, r.raise_on_redirect, r.raise_on_status, r.history,
            r.respect_retry_after_header, r.remove_headers_on_redirect, r.backoff_jitter)


def _increment_body(total, connect, read, redirect, status, other, total_false, connect_false, read_false,
                    post, allowed_kind):
    mask = P.mask
    vals = [total, connect, read, redirect, status, other]
    kw = {}
    for i, f in enumerate(FIELDS):
        kw[f] = vals[i] if (mask >> i) & 1 else None
    if total_false:
        kw["total"] = False
    if connect_false:
        kw["connect"] = False
    if read_false:
        kw["read"] = False
    allowed = [Retry.DEFAULT_ALLOWED_METHODS, None, frozenset(["POST"]), frozenset()][allowed_kind]
    r = Retry(allowed_methods=allowed, **kw)
    before = _state(r)
    default_before = _state(Retry.DEFAULT)
    ev = EVENTS[P.event]
    cat = CATEGORY[ev]
    error, response = make_event(ev)
    method = "POST" if post else "GET"
    method_ok = (not allowed) or (method in allowed)
    exc = None
    new = None
    try:
        new = r.increment(method, "/u", response=response, error=error)
    except Exception as e:
        exc = e
    # (1) never mutates the caller's object, nor the shared default
    if _state(r) != before or _state(Retry.DEFAULT) != default_before:
        return _fail("increment mutated a Retry object")
    # (2) immediate re-raise of the very same error object
    must_reraise = False
    if error is not None:
        if kw["total"] is False:
            must_reraise = True
        elif cat == "connect" and kw["connect"] is False:
            must_reraise = True
        elif cat == "read" and (kw["read"] is False or not method_ok):
            must_reraise = True
    if must_reraise:
        mark("re-raised")
        if exc is not error:
            return _fail("expected the original error object to be re-raised, got %r" % (exc,))
        return True
    # (3) expected counters
    exp = dict(kw)
    if exp["redirect"] is None and kw["total"] is False:
        pass
    if kw["total"] is False:
        exp["redirect"] = 0           # documented: total=False disables redirects
    if exp["total"] is not None:
        exp["total"] = exp["total"] - 1      # False - 1 == -1
    if exp[cat] is not None:
        exp[cat] = exp[cat] - 1
    exhausted = any((exp[f] is not None) and (exp[f] is not False) and exp[f] < 0 for f in FIELDS)
    if exhausted:
        mark("exhausted")
        if not isinstance(exc, MaxRetryError):
            return _fail("budget exhausted (%r) but got %r / %r" % (exp, exc, new))
        if error is not None:
            if exc.reason is not error:
                return _fail("MaxRetryError.reason is not the last cause")
        elif not isinstance(exc.reason, ResponseError):
            return _fail("MaxRetryError.reason should be a ResponseError")
        return True
    if exc is not None:
        return _fail("unexpected %r with remaining budget %r" % (exc, exp))
    mark("decremented")
    got = {f: getattr(new, f) for f in FIELDS}
    for f in FIELDS:
        e, g = exp[f], got[f]
        if e is None or e is False:
            if g is not e and not (e is False and g == 0 and f == "redirect"):
                return _fail("counter %s: expected %r got %r" % (f, e, g))
        elif g != e:
            return _fail("counter %s: expected %r got %r" % (f, e, g))
    if new is r:
        return _fail("increment returned self")
    if len(new.history) != len(r.history) + 1:
        return _fail("history not extended by one")
    # measure: total strictly decreases and stays >= 0 on every non-raising increment
    if kw["total"] is not None and kw["total"] is not False:
        if not (new.total == kw["total"] - 1 and new.total >= 0):
            return _fail("measure")
    # unrelated configuration is carried over
    if (new.allowed_methods is not r.allowed_methods and new.allowed_methods != r.allowed_methods) or \
            new.raise_on_redirect != r.raise_on_redirect or new.raise_on_status != r.raise_on_status or \
            new.backoff_factor != r.backoff_factor or new.backoff_max != r.backoff_max or \
            new.remove_headers_on_redirect != r.remove_headers_on_redirect or \
            new.respect_retry_after_header != r.respect_retry_after_header:
        return _fail("configuration not carried over")
    return True


def c04_increment(total: int, connect: int, read: int, redirect: int, status: int, other: int, total_false: bool,
                  connect_false: bool, read_false: bool, post: bool, allowed_kind: int) -> bool:
    """
    pre: total >= 0 and connect >= 0 and read >= 0 and redirect >= 0 and status >= 0 and other >= 0
    pre: 0 <= allowed_kind <= 3
    pre: total_false in P.tf and connect_false in P.cf and read_false in P.rf
    post: _
    """
    return run(_increment_body, total, connect, read, redirect, status, other, total_false, connect_false,
               read_false, post, allowed_kind)


def _small_body(total, connect, read, redirect, status, other, post):
    """All six counters at once over {None, 0, 1, 2} (value 3 stands for None)."""
    P["mask"] = 63
    def v(x):
        return None if x == 3 else x
    saved_mask = 0
    for i, x in enumerate([total, connect, read, redirect, status, other]):
        if x != 3:
            saved_mask |= 1 << i
    P["mask"] = saved_mask
    return _increment_body(v(total) or 0, v(connect) or 0, v(read) or 0, v(redirect) or 0, v(status) or 0,
                           v(other) or 0, False, False, False, post, 0)


def c04_increment_small(total: int, connect: int, read: int, redirect: int, status: int, other: int,
                        post: bool) -> bool:
    """
    pre: 0 <= total <= 3 and 0 <= connect <= 3 and 0 <= read <= 3
    pre: 0 <= redirect <= 3 and 0 <= status <= 3 and 0 <= other <= 3
    post: _
    """
    return run(_small_body, total, connect, read, redirect, status, other, post)


def _from_int_body(kind, n, redirect_flag, has_default):
    default = Retry(7) if has_default else None
    if kind == 0:
        r = Retry.from_int(None, redirect=redirect_flag, default=default)
        want = default if has_default else Retry.DEFAULT
        return r is want
    if kind == 1:
        r = Retry.from_int(False, redirect=redirect_flag, default=default)
        return r.total is False and r.redirect == 0 and r.raise_on_redirect is False
    if kind == 2:
        r = Retry.from_int(n, redirect=redirect_flag, default=default)
        if r.total != n:
            return False
        if redirect_flag:
            return r.redirect is None and r.raise_on_redirect is True
        return r.redirect == 0 and r.raise_on_redirect is False
    obj = Retry(total=n)
    return Retry.from_int(obj, redirect=redirect_flag, default=default) is obj


def c04_from_int(kind: int, n: int, redirect_flag: bool, has_default: bool) -> bool:
    """
    pre: 0 <= kind <= 3 and n >= 0
    post: _
    """
    return run(_from_int_body, kind, n, redirect_flag, has_default)


STATUSES = [200, 413, 429, 503, 500, 302]


def _is_retry_body(total, total_kind, post, allowed_kind, status_i, forced, respect, has_ra):
    status = STATUSES[status_i]
    allowed = [Retry.DEFAULT_ALLOWED_METHODS, None, frozenset(["POST"]), frozenset()][allowed_kind]
    t = None if total_kind == 0 else (False if total_kind == 1 else total)
    r = Retry(total=t, allowed_methods=allowed, status_forcelist=[status] if forced else None,
              respect_retry_after_header=respect)
    method = "POST" if post else "GET"
    method_ok = (not allowed) or (method in allowed)
    got = r.is_retry(method, status, has_ra)
    exp = method_ok and (forced or (bool(t) and respect and has_ra and status in (413, 429, 503)))
    if got:
        mark("retry")
    return got == exp


def c04_is_retry(total: int, total_kind: int, post: bool, allowed_kind: int, status_i: int, forced: bool,
                 respect: bool, has_ra: bool) -> bool:
    """
    pre: total >= 0 and 0 <= total_kind <= 2 and 0 <= allowed_kind <= 3
    pre: 0 <= status_i <= 5
    post: _
    """
    return run(_is_retry_body, total, total_kind, post, allowed_kind, status_i, forced, respect, has_ra)


# ---- S: sleeps ---------------------------------------------------------------------------------

import math

# (header text, expected seconds or None=absent, "bad"=malformed); the fake wall clock is 1_700_000_000
RETRY_AFTER = [(None, None), ("0", 0), ("7", 7), (" 12 ", 12), ("abc", "bad"),
               ("Tue, 14 Nov 2023 22:13:50 GMT", 30), ("Tue, 14 Nov 2023 22:13:00 GMT", 0)]
# (the last one lies 20 s in the past: no wait)


def _sleep_body(factor, bmax, nred, jitter, rnd, ra_i, respect, has_resp):
    import urllib3.util.retry as R
    from urllib3.util.retry import RequestHistory
    n = P.n
    hist = []
    if nred:
        hist.append(RequestHistory("GET", "/", None, 302, "/r"))
    for _ in range(n):
        hist.append(RequestHistory("GET", "/", None, 500, None))
    fake = E.install_clock()
    saved_random = R.random

    class _Rnd:
        @staticmethod
        def random():
            return P.rnd
    R.random = _Rnd
    try:
        r = Retry(total=5, backoff_factor=factor, backoff_max=bmax, backoff_jitter=jitter,
                  history=tuple(hist), respect_retry_after_header=respect)
        text, secs = RETRY_AFTER[ra_i]
        status = 503
        resp = FakeResponse(status, retry_after=text) if has_resp else None
        try:
            r.sleep(resp)
        except InvalidHeader:
            mark("invalid header")
            return secs == "bad" and respect and has_resp
        if secs == "bad" and respect and has_resp:
            return _fail("malformed Retry-After accepted")
        honoured = has_resp and respect and secs not in (None, "bad") and secs > 0
        if honoured:
            mark("retry-after sleep")
            if fake.sleeps != [secs]:
                return _fail("Retry-After %r not honoured: %r" % (secs, fake.sleeps))
            return True
        if len(fake.sleeps) > 1:
            return _fail("slept twice")
        for s in fake.sleeps:
            if not (0 <= s <= bmax):
                return _fail("sleep %r outside [0, backoff_max=%r]" % (s, bmax))
            mark("backoff sleep")
        # first retry of a streak never sleeps; otherwise the documented formula, clamped
        if n <= 1:
            if fake.sleeps:
                return _fail("slept before the second consecutive error")
        return True
    finally:
        R.random = saved_random
        E.uninstall_clock()


def _ra_date_body(now, status_i):
    """Retry-After given as an HTTP-date, the wall clock ANY integer instant: the sleep is the (non-negative) distance to that
    date — a date that has already passed means no wait, never a negative or failing sleep."""
    fake = E.install_clock()
    fake.wall = now
    try:
        r = Retry(total=3)
        resp = FakeResponse((503, 429, 413)[status_i], retry_after="Tue, 14 Nov 2023 22:13:20 GMT")     # = 1_700_000_000
        try:
            r.sleep(resp)
        except Exception as e:
            return _fail("clock %r: sleep raised %r" % (now, e))
        want = 1_700_000_000 - now
        if want > 0:
            if fake.sleeps != [want]:
                return _fail("clock %r: slept %r, the date is %r s away" % (now, fake.sleeps, want))
            mark("future date")
        else:
            if any(s != 0 for s in fake.sleeps):
                return _fail("clock %r (date passed %r s ago): slept %r" % (now, -want, fake.sleeps))
            mark("past date")
        return True
    finally:
        E.uninstall_clock()


def c04_retry_after_date(now: int, status_i: int) -> bool:
    """
    pre: 0 <= status_i <= 2
    pre: 0 <= now <= 4_000_000_000
    post: _
    """
    return run(_ra_date_body, now, status_i)


def c04_sleep(factor: float, bmax: float, nred: bool, jitter: float, rnd: float, ra_i: int,
              respect: bool, has_resp: bool) -> bool:
    """
    pre: math.isfinite(factor) and math.isfinite(bmax) and math.isfinite(jitter) and math.isfinite(rnd)
    pre: factor >= 0 and bmax >= 0 and jitter == P.jitter and rnd == 0.0
    pre: ra_i in P.ra
    post: _
    """
    return run(_sleep_body, factor, bmax, nred, jitter, rnd, ra_i, respect, has_resp)



# ---- U / L: attempts on the wire (pool level, direct and behind proxies) ------------------------------------------------------

import socket as _socket
import errno as _errno

from kit import net as N
from kit import env as E
from kit import tls as TLS
from kit.h import decode_point
from urllib3 import HTTPConnectionPool, ProxyManager
from urllib3.exceptions import (HTTPError, MaxRetryError, ProtocolError, ReadTimeoutError, NewConnectionError, ConnectTimeoutError,
                                ProxyError as _ProxyError, ResponseError)

OUTCOMES = ["ok", "connect_refused", "connect_timeout", "reset_after_send", "eof_after_send", "garbage_status", "read_timeout",
            "503_forcelisted", "503_retry_after", "413_retry_after", "500_plain", "500_forcelisted_retry_after"]
CONNECT_CLASS = ("connect_refused", "connect_timeout")
READ_CLASS = ("reset_after_send", "eof_after_send", "garbage_status", "read_timeout")
STATUS_RETRY = ("503_forcelisted", "503_retry_after", "413_retry_after", "500_forcelisted_retry_after")
TOPOS = ["direct", "forwarding proxy", "tunnel via http proxy"]
METHODS_U = ["GET", "POST", "PUT", "PATCH", "DELETE"]
IDEMPOTENT = {"GET", "PUT", "DELETE", "HEAD", "OPTIONS", "TRACE"}


class AttemptPeer(N.BaseHandler):
    """The n-th connection attempt / request (over all sockets) gets script[n]; counts what reached the wire."""

    def __init__(self, script, topo):
        self.script = script
        self.topo = topo
        self.i = 0              # index of the attempt being served
        self.requests = []      # (attempt index, method) of complete requests that reached the peer
        self.state = {}

    def cur(self):
        return self.script[min(self.i, len(self.script) - 1)]

    def on_connect(self, net, sock):
        o = self.cur()
        if o == "connect_refused":
            self.i += 1
            raise ConnectionRefusedError(_errno.ECONNREFUSED, "refused")
        if o == "connect_timeout":
            self.i += 1
            raise _socket.timeout("timed out")

    def on_send(self, sock, data):
        st = self.state.setdefault(sock.id, {"got": b"", "pos": 0, "queue": [], "eof": False})
        st["got"] += data
        while True:
            buf = st["got"][st["pos"]:]
            end = buf.find(b"\r\n\r\n")
            if end < 0:
                break
            head = buf[:end]
            # bodies in this harness are tiny and follow immediately: wait for Content-Length bytes
            cl = 0
            for ln in head.split(b"\r\n")[1:]:
                if ln.lower().startswith(b"content-length:"):
                    cl = int(ln.split(b":")[1])
            if len(buf) < end + 4 + cl:
                break
            st["pos"] += end + 4 + cl
            if head.startswith(b"CONNECT "):
                sock.tunnel_established = True
                sock.tunnel_target = None
                st["queue"].append(b"HTTP/1.0 200 OK\r\n\r\n")
                continue
            method = head.split(b" ")[0].decode()
            o = self.cur()
            self.requests.append((self.i, method))
            self.i += 1
            if o == "reset_after_send":
                st["queue"].append(ConnectionResetError(_errno.ECONNRESET, "reset"))
            elif o == "eof_after_send":
                st["queue"].append(b"")
            elif o == "garbage_status":
                st["queue"].append(b"\x00\x01 not http at all\r\n\r\n")
                st["queue"].append(b"")
            elif o == "read_timeout":
                st["queue"].append(_socket.timeout("timed out"))
            elif o == "503_forcelisted":
                st["queue"].append(N.response_bytes(503, "X", body=b""))
            elif o == "503_retry_after":
                st["queue"].append(N.response_bytes(503, "X", headers=[("Retry-After", "2")], body=b""))
            elif o == "413_retry_after":
                st["queue"].append(N.response_bytes(413, "X", headers=[("Retry-After", "1")], body=b""))
            elif o == "500_plain":
                st["queue"].append(N.response_bytes(500, "X", body=b""))
            elif o == "500_forcelisted_retry_after":
                # retried because the caller force-lists 500 — but Retry-After is documented for 413/429/503 only
                st["queue"].append(N.response_bytes(500, "X", headers=[("Retry-After", "7")], body=b""))
            else:
                st["queue"].append(N.response_bytes(200, "OK", body=b"ok"))

    def on_read(self, sock):
        st = self.state.setdefault(sock.id, {"got": b"", "pos": 0, "queue": [], "eof": False})
        if st["eof"]:
            return b""
        if st["queue"]:
            x = st["queue"].pop(0)
            if isinstance(x, BaseException):
                st["eof"] = True
                raise x
            if x == b"":
                st["eof"] = True
            return x
        return b""

    def readable(self, sock):
        st = self.state.get(sock.id)
        return bool(st and (st["queue"] or st["eof"]))


class SpyRetry(Retry):
    LOG = None


_REAL_INCREMENT = Retry.increment


def _logging_increment(self, method=None, url=None, response=None, error=None, _pool=None, _stacktrace=None):
    """Observation only: every Retry.increment call (also of the plain Retry built from an int) is recorded."""
    rec = {"method": method, "error": error, "status": getattr(response, "status", None),
           "before": (self.total, self.connect, self.read, self.status, self.other)}
    if SpyRetry.LOG is not None:
        SpyRetry.LOG.append(rec)
    new = _REAL_INCREMENT(self, method=method, url=url, response=response, error=error, _pool=_pool, _stacktrace=_stacktrace)
    rec["after"] = new
    return new


def attempt_dims(part):
    outs = part["outcomes"]
    hist = [[a] for a in outs] + [[a, b] for a in outs if a != "ok" for b in outs]
    if part.get("three"):
        hist += [[a, b, c] for a in outs if a != "ok" for b in ("reset_after_send", "connect_refused", "503_forcelisted") for c in ("ok", "reset_after_send")]
    return [part["topos"], part["methods"], hist, part["rkinds"]]


def _attempt_point(idx):
    topo, mi, hist, rkind = decode_point(idx, attempt_dims)
    return N._untraced(_attempts)(topo, mi, hist, rkind)


def _attempts(topo, mi, hist, rkind):
    """rkind: 0 retries=False; 1 Retry(total=1); 2 Retry(total=2, connect=1, read=1, status=1, other=1); 3 Retry(total=3, read=0)
    4 Retry(total=5, allowed_methods=None [retry every method]); 5 integer 2; 6 Retry(total=4, connect=0); 7 Retry(total=4, status=1,
    force-list without the Retry-After statuses)"""
    method = METHODS_U[mi]
    if "500_plain" in hist and "500_forcelisted_retry_after" in hist:
        return True        # one policy cannot both force-list 500 and leave it alone
    script = list(hist) + ["ok"]
    peer = AttemptPeer(script, topo)
    netw = N.install(peer)
    clock = E.install_clock()
    cert = TLS.Cert("default", (("DNS", "*"),))
    TLS_nameok = TLS._name_ok
    TLS._name_ok = lambda c, h, cn: True
    TLS.install(TLS.Script({}, cert), "ssl", True)
    SpyRetry.LOG = []
    Retry.increment = _logging_increment
    try:
        mk = {1: dict(total=1), 2: dict(total=2, connect=1, read=1, status=1, other=1), 3: dict(total=3, read=0),
              4: dict(total=5, allowed_methods=None), 6: dict(total=4, connect=0), 7: dict(total=4, status=1)}
        if rkind == 0:
            retries = False
        elif rkind == 5:
            retries = 2
        else:
            fl = ([503] if "503_forcelisted" in hist else []) + ([500] if "500_forcelisted_retry_after" in hist else [])
            if rkind == 7:
                fl = fl + [418]          # a non-empty force-list that does not name the statuses retried for their Retry-After
            retries = SpyRetry(status_forcelist=fl or None, backoff_factor=0, **mk[rkind])
        body = b"x=1" if method in ("POST", "PUT", "PATCH") else None
        exc = None
        resp = None
        try:
            if topo == 0:
                resp = HTTPConnectionPool("h", 80).urlopen(method, "/p", body=body, retries=retries)
            elif topo == 1:
                resp = ProxyManager("http://proxy.example:3128").urlopen(method, "http://h/p", body=body, retries=retries, redirect=False)
            else:
                resp = ProxyManager("http://proxy.example:3128").urlopen(method, "https://h/p", body=body, retries=retries, redirect=False)
        except HTTPError as e:
            exc = e
        sent = [m for (_, m) in peer.requests]
        nsent = len(sent)
        # ---- reference ----
        if rkind == 0:
            budget_total = 0
        elif rkind == 5:
            budget_total = 2
        else:
            budget_total = mk[rkind]["total"]
        if nsent > 1 + budget_total:
            return _fail("%d requests on the wire, total budget %d (history %r, %s)" % (nsent, budget_total, hist, method))
        allowed = True if rkind == 4 else (method in IDEMPOTENT)
        first = hist[0]
        # (1) retries=False: the first failure surfaces at once, nothing is sent again; statuses are simply returned
        if rkind == 0:
            if nsent > 1:
                return _fail("retries=False but %d requests were sent (history %r)" % (nsent, hist))
            if first in CONNECT_CLASS + READ_CLASS:
                if exc is None or isinstance(exc, MaxRetryError):
                    return _fail("retries=False: expected the original urllib3 error for %s, got %r / %r" % (first, resp, exc))
            elif exc is not None:
                return _fail("retries=False: %s should be returned as a response, got %r" % (first, exc))
            mark("retries=False")
            return True
        # (2) a request whose method is outside allowed_methods is never re-sent after it may have reached the server
        # F1 only concerns faults on which http.client itself closes the connection (reset, EOF): that close() resets the flag
        F1_FAULTS = ("reset_after_send", "eof_after_send")
        f1 = (topo in (1, 2) and first in F1_FAULTS and SpyRetry.LOG and isinstance(SpyRetry.LOG[0]["error"], _ProxyError))
        if not allowed and first in READ_CLASS + STATUS_RETRY:
            if f1 and known("F1"):
                return True       # everything that follows (re-send, MaxRetryError instead of the original error) is F1
            if nsent > 1:
                why = "re-sent %s after %s (history %r, topology %s, %d requests)" % (method, first, hist, TOPOS[topo], nsent)
                log = SpyRetry.LOG
                # known finding F1: behind a proxy http.client closes the connection on a read-phase error, which resets the
                # has-connected-to-proxy flag; urlopen then reports the error as ProxyError and counts it under `other`
                if topo in (1, 2) and first in F1_FAULTS and log and isinstance(log[0]["error"], _ProxyError) and known("F1"):
                    return True
                return _fail(why)
            if first in READ_CLASS:
                if exc is None or isinstance(exc, MaxRetryError):
                    return _fail("non-idempotent %s after %s: the original error must be re-raised, got %r / %r" % (method, first, resp, exc))
            mark("non-idempotent spared")
            return True
        # (3) classification of every increment
        log = SpyRetry.LOG
        if log is not None:
            k = 0
            for n, o in enumerate(script):
                if o == "ok" or o == "500_plain":
                    break
                if k >= len(log):
                    break
                err = log[k]["error"]
                st = log[k]["status"]
                if o in CONNECT_CLASS:
                    inner = err.original_error if isinstance(err, _ProxyError) else err
                    okc = isinstance(inner, (NewConnectionError, ConnectTimeoutError))
                    if topo != 0 and not isinstance(err, _ProxyError):
                        return _fail("proxy unreachable (%s) must be a ProxyError, got %r" % (o, err))
                    if not okc:
                        return _fail("%s classified as %r" % (o, err))
                elif o in READ_CLASS:
                    want = ReadTimeoutError if o == "read_timeout" else ProtocolError
                    if not isinstance(err, want):
                        if topo in (1, 2) and o in ("reset_after_send", "eof_after_send") and isinstance(err, _ProxyError) and known("F1"):
                            return True
                        return _fail("%s after the request was written must be %s, got %r (topology %s)" % (o, want.__name__, err, TOPOS[topo]))
                else:
                    if err is not None or st not in (503, 413, 500):
                        return _fail("%s: increment(error=%r, status=%r)" % (o, err, st))
                k += 1
                # did the budget allow another attempt?
                if not isinstance(log[k - 1].get("after"), Retry):
                    break
        # (3b) the number of attempts is exactly what the per-category budgets allow (reference counters, written from the docs)
        f1_possible = topo in (1, 2) and any(o in ("reset_after_send", "eof_after_send") for o in hist)
        # (a connect fault scripted for an attempt that re-uses the kept-alive connection of a status response never happens)
        unreachable_connect = any(o in CONNECT_CLASS and i > 0 and hist[i - 1] in STATUS_RETRY + ("500_plain",)
                                  for i, o in enumerate(hist))
        if allowed and not f1_possible and not unreachable_connect:
            pol = {"total": budget_total, "connect": None, "read": None, "status": None, "other": None}
            if rkind in mk:
                for kk in ("connect", "read", "status", "other"):
                    if kk in mk[rkind]:
                        pol[kk] = mk[rkind][kk]
            forcelisted = set()
            if rkind not in (0, 5):
                if "503_forcelisted" in hist:
                    forcelisted.add("503_forcelisted")
                    forcelisted.update(("503_retry_after",))          # same status code 503
                if "500_forcelisted_retry_after" in hist:
                    forcelisted.add("500_forcelisted_retry_after")
            expected = 0
            for o in script:
                if o not in CONNECT_CLASS:
                    expected += 1                  # (a refused / timed-out connect puts no request on the wire)
                if o in ("ok", "500_plain"):
                    break
                if o in CONNECT_CLASS:
                    cat = "connect"
                elif o in READ_CLASS:
                    cat = "read"
                else:
                    cat = "status"
                    retried = o in forcelisted or (o in ("503_retry_after", "413_retry_after") and pol["total"])
                    if o == "503_forcelisted" and o not in forcelisted:
                        retried = False
                    if o == "500_forcelisted_retry_after" and o not in forcelisted:
                        retried = False
                    if not retried:
                        break                      # handed to the caller as a response
                pol["total"] -= 1
                if pol[cat] is not None:
                    pol[cat] -= 1
                if min(v for v in pol.values() if v is not None) < 0:
                    break                          # exhausted: MaxRetryError
            if nsent != expected:
                return _fail("%d requests on the wire, the budgets allow exactly %d (history %r, policy %r, %s, topology %s)"
                             % (nsent, expected, hist, mk.get(rkind, rkind), method, TOPOS[topo]))
        # (4) termination / exhaustion surfaces as MaxRetryError (or the last response)
        if exc is not None and not isinstance(exc, (MaxRetryError, ProtocolError, ReadTimeoutError, _ProxyError, NewConnectionError, ConnectTimeoutError)):
            return _fail("unexpected failure %r" % (exc,))
        # sleeps: only Retry-After values (statuses 413/503 with the header) or backoff 0
        for sl in clock.sleeps:
            if sl == 7 and "500_forcelisted_retry_after" in hist:
                # known finding F30: the Retry-After of ANY retried response is honoured, not only of 413/429/503
                if known("F30"):
                    continue
                return _fail("slept %r: the Retry-After of a force-listed 500 was honoured (documented for 413/429/503 only)" % (sl,))
            if sl not in (0, 1, 2) or sl < 0:
                return _fail("slept %r" % (sl,))
            if sl in (1, 2) and not any(o in ("503_retry_after", "413_retry_after") for o in hist):
                return _fail("slept %r without a Retry-After response" % (sl,))
        mark("attempts=%d" % nsent)
        return True
    finally:
        Retry.increment = _REAL_INCREMENT
        SpyRetry.LOG = None
        TLS._name_ok = TLS_nameok
        TLS.uninstall()
        N.uninstall()
        E.uninstall_clock()


def c04_attempts(idx: int) -> bool:
    """
    pre: 0 <= idx < P.n
    post: _
    """
    return run(_attempt_point, idx)


DIMS = {"c04_attempts": attempt_dims}


def JOBS(tier):
    quick = tier == "quick"
    jobs = []
    t = 120 if quick else 240
    from itertools import combinations
    for ei, ev in enumerate(EVENTS):
        cat = FIELDS.index(CATEGORY[ev])
        masks = set()
        masks.add(0)
        for size in (1, 2):
            for c in combinations(range(6), size):
                masks.add(sum(1 << i for i in c))
        for extra in range(6):
            masks.add((1 << 0) | (1 << cat) | (1 << extra))
        if not quick:
            for c in combinations(range(6), 3):
                masks.add(sum(1 << i for i in c))
        for mk in sorted(masks):
            jobs.append({"func": "c04_increment", "timeout": t,
                         "part": {"event": ei, "mask": mk, "tf": [False], "cf": [False], "rf": [False]}})
        # False-valued counters (documented: total/connect/read may be False)
        jobs.append({"func": "c04_increment", "timeout": t,
                     "part": {"event": ei, "mask": (1 << 0) | (1 << cat), "tf": [False, True], "cf": [False, True],
                              "rf": [False, True]}})
        if not quick:
            jobs.append({"func": "c04_increment_small", "timeout": t, "part": {"event": ei, "mask": 63}})
    for topo in (0, 1, 2):
        for rk in range(8):
            jobs.append({"func": "c04_attempts", "timeout": t, "path_timeout": 60, "samples": 1,
                         "part": {"topos": [topo], "methods": [0, 1, 2] if quick else [0, 1, 2, 3, 4], "outcomes": OUTCOMES,
                                  "rkinds": [rk], "three": not quick}})
    jobs.append({"func": "c04_from_int", "timeout": t, "part": {}})
    jobs.append({"func": "c04_retry_after_date", "timeout": t, "part": {}})
    jobs.append({"func": "c04_is_retry", "timeout": t, "part": {}})
    for n in ((0, 1, 2, 4) if quick else range(0, 13)):
        for (jit, rv) in ([(0.0, 0.0), (0.25, 0.5)] if quick else [(0.0, 0.0), (0.25, 0.5), (8.0, 0.9999999), (0.5, 0.0)]):
            for ra in ([0, 4], [1, 2], [3, 5, 6]):
                jobs.append({"func": "c04_sleep", "timeout": t, "part": {"n": n, "rnd": rv, "ra": ra, "jitter": jit}})
    return jobs


EVIDENCE = {
    "bounds": {"quick": "U/L: attempt histories of length 1-2 (every pair of 11 outcomes: connect refused/timeout, reset/EOF/garbage/timeout after the "
                        "request was written, forcelisted 503, 503/413 with Retry-After, 500, 200) x {GET,POST,PUT} x 6 policies (False, total "
                        "1, all categories 1, read=0, every method allowed, plain int) x direct / forwarding proxy / CONNECT tunnel, with a "
                        "spying Retry and a counting peer; R: Retry.increment for 9 event kinds x every set of <=2 non-None counters (+ sets {total, own category, "
                        "one more}) with UNBOUNDED symbolic integer values, False-valued total/connect/read, 4 allowed_methods "
                        "kinds x GET/POST; from_int and is_retry with unbounded ints; S: sleeps for history tails 0..5, integer "
                        "backoff factor/max/jitter arbitrary finite non-negative floats, random() arbitrary in [0,1), 7 Retry-After texts",
               "thorough": "R: every set of <= 3 non-None counters, all six counters over {None,0,1,2} jointly; S: tails 0..12; U/L: histories of 3, all 5 methods"},
    "outside": ["NaN/inf backoff parameters", "Retry-After texts other than the 7 listed (parsing is email.utils, stdlib)"],
    "stubs": ["time module in util.retry -> recorder", "random.random in util.retry and backoff_jitter -> concrete pairs (jitter, random) in {(0,0),(0.25,0.5),(8,0.9999999),(0.5,0)} (symbolic*symbolic float products do not terminate); backoff_factor and backoff_max are symbolic floats"],
    "assumptions": ["composition: every extra request on the wire is preceded by one non-raising increment (lemma U), each "
                    "such increment lowers total by one and keeps it >= 0 (lemma R) => requests <= 1 + budget"],
}
