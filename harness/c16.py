"""C16 — HTTPHeaderDict is a case-insensitive, order-preserving multimap.

c16_step: inductive step — ONE operation from a symbolic pre-state (shape from the partition, all
          VALUES arbitrary unbounded symbolic strings, operated-on name chosen by symbolic index into the
          casing pool), all observers compared with an independent reference multimap.
c16_seq : short operation sequences from the empty dict (reachability cross-check of the pre-states).
"""
from __future__ import annotations

from kit.h import P, run, mark, known
from urllib3._collections import HTTPHeaderDict

POOL = ["A", "a", "B", "b", "Set-Cookie", "set-cookie", "Content-Type", "content-length"]

# pre-state shapes: list of (name index, number of values)
SHAPES = [
    [],
    [(0, 1)],
    [(1, 2)],
    [(0, 1), (3, 1)],
    [(4, 2), (2, 1)],
    [(3, 1), (0, 2)],
    [(6, 1), (1, 1)],
]

OPS = ["setitem", "delitem", "add", "add_combine", "extend_dict", "extend_pairs", "extend_hd", "extend_kwargs",
       "update_dict", "update_hd", "setdefault", "setdefault_nodefault", "pop", "pop_default", "discard",
       "copy_mutate", "or", "ior", "ror", "method_change", "ctor_hd", "ctor_pairs"]


USES_KEY2 = {"extend_dict", "extend_pairs", "extend_hd", "copy_mutate", "or", "ior", "ror", "ctor_pairs"}


class Model:
    """Reference multimap: ordered list of [lower, display, [values]]."""

    def __init__(self):
        self.e = []

    def find(self, k):
        kl = k.lower()
        for i, ent in enumerate(self.e):
            if ent[0] == kl:
                return i
        return -1

    def setitem(self, k, v):
        i = self.find(k)
        if i >= 0:
            self.e[i] = [k.lower(), k, [v]]
        else:
            self.e.append([k.lower(), k, [v]])

    def delitem(self, k):
        i = self.find(k)
        if i < 0:
            raise KeyError(k)
        del self.e[i]

    def add(self, k, v, combine=False):
        i = self.find(k)
        if i < 0:
            self.e.append([k.lower(), k, [v]])
        elif combine:
            self.e[i][2][-1] = self.e[i][2][-1] + ", " + v
        else:
            self.e[i][2].append(v)

    def lines(self):
        return [(ent[1], v) for ent in self.e for v in ent[2]]

    def merged(self):
        return [(ent[1], ", ".join(ent[2])) for ent in self.e]

    def copy(self):
        m = Model()
        m.e = [[a, b, list(c)] for a, b, c in self.e]
        return m


def observe_equal(d, m):
    """Every public observer of d agrees with the model m. Returns None or a description."""
    if len(d) != len(m.e):
        return "len"
    if list(d) != [ent[1] for ent in m.e]:
        return "iteration order / display names"
    if list(d.items()) != m.lines():
        return "items()"
    if list(d.iteritems()) != m.lines():
        return "iteritems()"
    if list(d.itermerged()) != m.merged():
        return "itermerged()"
    if len(d.items()) != len(m.lines()):
        return "items() len"
    for name in POOL:
        i = m.find(name)
        if (name in d) != (i >= 0):
            return "membership of " + name
        if i >= 0:
            if d[name] != ", ".join(m.e[i][2]):
                return "lookup " + name
            if d.getlist(name) != m.e[i][2]:
                return "getlist " + name
            if d.get(name) != ", ".join(m.e[i][2]):
                return "get " + name
        elif name == name.lower():
            if d.getlist(name) != []:
                return "getlist absent " + name
            if d.get(name) is not None:
                return "get absent " + name
            try:
                d[name]
                return "lookup of absent name did not raise"
            except KeyError:
                pass
    # equality against the merged dict form
    if not (d == dict(m.merged())):
        return "== merged dict"
    # ... and against the same content given line by line (a source that repeats names is longer than the dict itself)
    lines = list(m.lines())
    if len(lines) != len(d) and not (d == lines):
        return "== list of header lines"
    for (n, v) in m.lines():
        if (n, v) not in d.items():
            return "items() membership"
    return None


def build(shape, vals):
    d = HTTPHeaderDict()
    m = Model()
    vi = 0
    for (ni, cnt) in shape:
        for _ in range(cnt):
            d.add(POOL[ni], vals[vi])
            m.add(POOL[ni], vals[vi])
            vi += 1
    return d, m


def _fail(msg):
    from kit import h
    h.INFO["why"] = msg
    return False


def _step_body(v1, v2, v3, ki, k2, x, y):
    shape = SHAPES[P.shape]
    op = OPS[P.op]
    d, m = build(shape, [v1, v2, v3])
    key = POOL[ki]
    if op in USES_KEY2:
        key2 = POOL[k2]
    else:
        key2 = None
    src_d, src_m = d, m          # for aliasing checks
    snap = m.copy()
    if op == "setitem":
        d[key] = x
        m.setitem(key, x)
    elif op == "delitem":
        try:
            del d[key]
            raised = False
        except KeyError:
            raised = True
        try:
            m.delitem(key)
            mraised = False
        except KeyError:
            mraised = True
        if raised != mraised:
            return _fail("del KeyError mismatch")
    elif op == "add":
        d.add(key, x)
        m.add(key, x)
    elif op == "add_combine":
        d.add(key, x, combine=True)
        m.add(key, x, combine=True)
    elif op == "extend_dict":
        if key.lower() == key2.lower():
            src = {key: x}
            pairs = [(key, x)]
        else:
            src = {key: x, key2: y}
            pairs = [(key, x), (key2, y)]
        d.extend(src)
        for a, b in pairs:
            m.add(a, b)
    elif op == "extend_pairs":
        pairs = [(key, x), (key2, y), (key, y)]
        d.extend(pairs)
        for a, b in pairs:
            m.add(a, b)
    elif op == "extend_hd":
        o = HTTPHeaderDict()
        o.add(key, x)
        o.add(key2, y)
        o.add(key, y)
        om = Model()
        om.add(key, x)
        om.add(key2, y)
        om.add(key, y)
        d.extend(o)
        for a, b in om.lines():
            m.add(a, b)
        if observe_equal(o, om):
            return _fail("extend mutated its source")
    elif op == "extend_kwargs":
        d.extend(**{key: x})
        m.add(key, x)
    elif op == "update_dict":
        d.update({key: x})
        m.setitem(key, x)
    elif op == "update_hd":
        o = HTTPHeaderDict()
        o.add(key, x)
        o.add(key, y)
        d.update(o)
        m.setitem(key, x + ", " + y)
    elif op == "setdefault":
        r = d.setdefault(key, x)
        i = m.find(key)
        if i >= 0:
            exp = ", ".join(m.e[i][2])
        else:
            m.setitem(key, x)
            exp = x
        if r != exp:
            return _fail("setdefault return")
    elif op == "setdefault_nodefault":
        r = d.setdefault(key)
        i = m.find(key)
        if i >= 0:
            exp = ", ".join(m.e[i][2])
        else:
            m.setitem(key, "")
            exp = ""
        if r != exp:
            return _fail("setdefault() return")
    elif op == "pop":
        i = m.find(key)
        try:
            r = d.pop(key)
            if i < 0:
                return _fail("pop of absent name returned")
            if r != ", ".join(m.e[i][2]):
                return _fail("pop value")
            m.delitem(key)
        except KeyError:
            if i >= 0:
                return _fail("pop raised for present name")
    elif op == "pop_default":
        i = m.find(key)
        r = d.pop(key, x)
        if i >= 0:
            if r != ", ".join(m.e[i][2]):
                return _fail("pop(default) value")
            m.delitem(key)
        elif r is not x and r != x:
            return _fail("pop default")
    elif op == "discard":
        d.discard(key)
        if m.find(key) >= 0:
            m.delitem(key)
    elif op == "copy_mutate":
        c = d.copy()
        cm = m.copy()
        if observe_equal(c, cm):
            return _fail("copy differs from source")
        c.add(key, x)
        cm.add(key, x)
        c[key2] = y
        cm.setitem(key2, y)
        if observe_equal(c, cm):
            return _fail("mutated copy wrong: %s" % observe_equal(c, cm))
        # source untouched; then mutate the source and check the copy is untouched
        if observe_equal(d, m):
            return _fail("mutating a copy changed its source: %s" % observe_equal(d, m))
        d.add(key, y, combine=True)
        m.add(key, y, combine=True)
        if observe_equal(c, cm):
            return _fail("mutating the source changed the copy")
    elif op in ("or", "ior", "ror"):
        srck = P.get("src", 0)
        om = Model()
        if srck < 3:
            om.add(key, x)
            if key2.lower() != key.lower():
                om.add(key2, y)
        # srck 3..5: EMPTY sources ({} / [] / empty HTTPHeaderDict): the result must still be a fresh, independent object
        if srck in (0, 3):
            other = dict(om.lines())
        elif srck in (1, 4):
            other = list(om.lines())
        else:
            other = HTTPHeaderDict()
            for a, b in om.lines():
                other.add(a, b)
        if op == "or":
            r = d | other
            rm = m.copy()
            for a, b in om.lines():
                rm.add(a, b)
            if observe_equal(d, m):
                return _fail("| changed its left operand")
            if observe_equal(r, rm):
                return _fail("| result: %s" % observe_equal(r, rm))
            # independence
            if r is d:
                return _fail("| returned its own left operand")
            r.add(key, "zz")
            if observe_equal(d, m):
                return _fail("| result aliases its operand")
            return True
        if op == "ior":
            d |= other
            for a, b in om.lines():
                m.add(a, b)
            if srck in (2, 5):
                other.add(key, "zz")      # the source must stay independent
        else:
            if srck in (2, 5):
                return True               # HTTPHeaderDict | HTTPHeaderDict is __or__, not __ror__
            r = other | d
            rm = om.copy()
            for a, b in m.lines():
                rm.add(a, b)
            if observe_equal(r, rm):
                return _fail("reflected | result: %s" % observe_equal(r, rm))
            if observe_equal(d, m):
                return _fail("reflected | changed its operand")
            r.add(key, "zz")
            if observe_equal(d, m):
                return _fail("reflected | result aliases its operand")
            return True
    elif op == "method_change":
        d.add("Content-Length", x)
        m.add("Content-Length", x)
        d.add("digest", y)
        m.add("digest", y)
        r = d._prepare_for_method_change()
        for h in ["Content-Encoding", "Content-Language", "Content-Location", "Content-Type", "Content-Length",
                  "Digest", "Last-Modified"]:
            if m.find(h) >= 0:
                m.delitem(h)
        if r is not d:
            return _fail("_prepare_for_method_change must return self")
    elif op == "ctor_hd":
        c = HTTPHeaderDict(d)
        if observe_equal(c, m):
            return _fail("HTTPHeaderDict(hd): %s" % observe_equal(c, m))
        c.add(key, x)
        if observe_equal(d, m):
            return _fail("constructor copy aliases its source")
        return True
    elif op == "ctor_pairs":
        c = HTTPHeaderDict(list(m.lines()), **{key2: y})
        cm = Model()
        for a, b in m.lines():
            cm.add(a, b)
        cm.add(key2, y)
        if observe_equal(c, cm):
            return _fail("HTTPHeaderDict(pairs, **kw): %s" % observe_equal(c, cm))
        return True
    why = observe_equal(d, m)
    if why:
        return _fail("after %s: %s" % (op, why))
    mark(op)
    return True


def c16_step(v1: str, v2: str, v3: str, ki: int, k2: int, x: str, y: str) -> bool:
    """
    pre: 0 <= ki < 8 and 0 <= k2 < 8
    post: _
    """
    return run(_step_body, v1, v2, v3, ki, k2, x, y)


SEQ_OPS = ["setitem", "add", "add_combine", "delitem", "extend", "pop", "setdefault"]


def _seq_body(o1, k1, o2, k2, o3, k3, o4, k4, x, y):
    d = HTTPHeaderDict()
    m = Model()
    vals = [x, y, x + y, ""]
    for n, (o, k) in enumerate([(o1, k1), (o2, k2), (o3, k3), (o4, k4)][:P.length]):
        key = POOL[k]
        v = vals[n]
        op = SEQ_OPS[o]
        if op == "setitem":
            d[key] = v
            m.setitem(key, v)
        elif op == "add":
            d.add(key, v)
            m.add(key, v)
        elif op == "add_combine":
            d.add(key, v, combine=True)
            m.add(key, v, combine=True)
        elif op == "delitem":
            try:
                del d[key]
                if m.find(key) < 0:
                    return _fail("del absent did not raise")
                m.delitem(key)
            except KeyError:
                if m.find(key) >= 0:
                    return _fail("del present raised")
        elif op == "extend":
            d.extend([(key, v), (key.upper(), v)])
            m.add(key, v)
            m.add(key.upper(), v)
        elif op == "pop":
            r = d.pop(key, None)
            i = m.find(key)
            if i >= 0:
                if r != ", ".join(m.e[i][2]):
                    return _fail("pop value")
                m.delitem(key)
            elif r is not None:
                return _fail("pop default")
        elif op == "setdefault":
            d.setdefault(key, v)
            if m.find(key) < 0:
                m.setitem(key, v)
        why = observe_equal(d, m)
        if why:
            return _fail("after op %d (%s): %s" % (n, op, why))
    return True


def c16_seq(o1: int, k1: int, o2: int, k2: int, o3: int, k3: int, o4: int, k4: int, x: str, y: str) -> bool:
    """
    pre: o1 == P.o1 and 0 <= o2 < 7 and 0 <= o3 < 7 and 0 <= o4 < 7
    pre: 0 <= k1 < 4 and 0 <= k2 < 4 and 0 <= k3 < 4 and 0 <= k4 < 4
    post: _
    """
    return run(_seq_body, o1, k1, o2, k2, o3, k3, o4, k4, x, y)


def JOBS(tier):
    quick = tier == "quick"
    t = 25 if quick else 200
    jobs = []
    for si in range(len(SHAPES)):
        if quick and si in (0, 3, 5, 6):
            continue
        for oi, op in enumerate(OPS):
            if op in ("or", "ior", "ror"):
                for src in (0, 1, 2, 3, 4, 5):
                    if src >= 3 and si not in (1, 4):
                        continue
                    jobs.append({"func": "c16_step", "part": {"shape": si, "op": oi, "src": src}, "timeout": t})
            else:
                jobs.append({"func": "c16_step", "part": {"shape": si, "op": oi}, "timeout": t})
    for o1 in range(len(SEQ_OPS)):
        jobs.append({"func": "c16_seq", "part": {"o1": o1, "length": 2 if quick else 3}, "timeout": t})
    return jobs


EVIDENCE = {
    "bounds": {"quick": "one operation (22 kinds, 3 source container types, empty and non-empty, for |,|=,reflected |) from 3 (thorough: 7) pre-state shapes "
                        "(<=2 names, <=3 values); operated-on names by symbolic index into an 8-name casing pool; ALL values "
                        "unbounded symbolic strings; sequences of 2 ops from the empty dict",
               "thorough": "same with sequences of 3 and 6x budget"},
    "outside": ["names outside the casing pool (hashing pins a symbolic name to one value per path)",
                "bytes keys", "pre-states with more than 2 distinct names"],
    "stubs": [],
    "assumptions": ["every reachable HTTPHeaderDict state is an ordered list of (display name, >=1 values) with distinct "
                    "lower-cased names; the step harness starts from such states, so it covers histories of any length "
                    "for the shapes listed"],
}
