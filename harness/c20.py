"""C20 — multipart form encoding is structurally sound for any field content.

c20_char   : per-character lemma over ALL code points: format_multipart_header_param escapes exactly CR, LF and '"'.
c20_render : ONE arbitrary code point inside a field name / filename through RequestField (direct and from_tuples) and
             render_headers(): the header block is exactly Content-Disposition (+ Content-Type) with only CR, LF, '"' escaped.
c20_param  : the lemma lifted to short strings (str.translate is a homomorphism) + bytes values.
c20_layout : encode_multipart_formdata with ONE symbolic component (field name / filename / str data / bytes data)
             inside concrete neighbours, parsed back by an independent strict multipart parser.
c20_request: request_encode_body puts the returned content type into the headers unless the caller set one.
"""
from __future__ import annotations

from kit.h import P, run, mark, known
from urllib3.fields import RequestField, format_multipart_header_param
from urllib3.filepost import encode_multipart_formdata
import urllib3.filepost as FP

ALPHA = '"\r\n;\\ aé-'
ALPHAS = [ALPHA, ALPHA + "\x0b\x85\u2028=%"]      # thorough: + line boundaries str.splitlines() knows, '=', '%'
BOUNDARY = "XbX"


def _fail(msg):
    from kit import h
    h.INFO["why"] = msg
    return False


def esc(s: str) -> str:
    """WHATWG multipart/form-data escaping, written independently (no str.translate)."""
    out = []
    for ch in s:
        if ch == "\n":
            out.append("%0A")
        elif ch == "\r":
            out.append("%0D")
        elif ch == '"':
            out.append("%22")
        else:
            out.append(ch)
    return "".join(out)


def _char_body(c):
    ch = chr(c)
    got = format_multipart_header_param("n", ch)
    if c == 10:
        exp = 'n="%0A"'
    elif c == 13:
        exp = 'n="%0D"'
    elif c == 34:
        exp = 'n="%22"'
    else:
        exp = 'n="' + ch + '"'
    if got != exp:
        return _fail("code point %r rendered as %r" % (c, got))
    inner = got[3:-1]
    if "\r" in inner or "\n" in inner or '"' in inner:
        return _fail("unescaped delimiter inside the quotes")
    return True


def c20_char(c: int) -> bool:
    """
    pre: 0 <= c <= 0x10FFFF
    post: _
    """
    return run(_char_body, c)


def _param_body(s, as_bytes):
    v = s.encode("utf-8") if as_bytes else s
    got = format_multipart_header_param("name", v)
    exp = 'name="' + esc(s) + '"'
    if got != exp:
        return _fail("%r rendered as %r, expected %r" % (s, got, exp))
    return True


def c20_param(s: str, as_bytes: bool) -> bool:
    """
    pre: len(s) <= P.maxlen
    pre: all(ch in ALPHA for ch in s)
    post: _
    """
    return run(_param_body, s, as_bytes)


def _render_body(c, where, via_tuple):
    """One arbitrary code point inside the field name or the filename, through RequestField.render_headers() — str operations
    only, so the code point stays symbolic and z3 decides the comparison for every value."""
    ch = chr(c)
    name = ("a" + ch + "b") if where == 0 else "n"
    filename = ("f" + ch + ".txt") if where == 1 else ("x.bin" if where == 2 else None)
    if via_tuple:
        rf = RequestField.from_tuples(name, (filename, "data", "text/plain") if filename is not None else "data")
    else:
        rf = RequestField(name, "data", filename=filename)
        rf.make_multipart(content_type="text/plain" if filename is not None else None)
    got = rf.render_headers()
    e = "%0A" if c == 10 else ("%0D" if c == 13 else ("%22" if c == 34 else ch))
    ename = ("a" + e + "b") if where == 0 else "n"
    disp = 'Content-Disposition: form-data; name="' + ename + '"'
    if filename is not None:
        disp += '; filename="' + (("f" + e + ".txt") if where == 1 else "x.bin") + '"'
    want = disp + "\r\n"
    if filename is not None:
        want += "Content-Type: text/plain\r\n"
    want += "\r\n"
    if got != want:
        return _fail("code point %r in %s: header block %r, expected %r" % (c, ["name", "filename", "-"][where], got, want))
    return True


def c20_render(c: int, where: int, via_tuple: bool) -> bool:
    """
    pre: 0 <= c <= 0x10FFFF and not (0xD800 <= c <= 0xDFFF)
    pre: where == P.where and via_tuple == P.via_tuple
    post: _
    """
    return run(_render_body, c, where, via_tuple)


def _block_body(idx):
    """Every code point of one 0x1000 block (the block index is the solver's variable) inside a field name and a filename, alone,
    after a base letter (combining marks) and between letters, through RequestField.from_tuples + render_headers: the header
    block is exactly what was specified — no folding, normalisation, truncation or re-encoding of any character."""
    from kit.h import decode_point
    from kit import net as N

    def sweep(block):
        lo = block * 0x1000
        for c in range(lo, lo + 0x1000):
            if 0xD800 <= c <= 0xDFFF:
                continue
            ch = chr(c)
            e = "%0A" if c == 10 else ("%0D" if c == 13 else ("%22" if c == 34 else ch))
            for pre, post in (("", ""), ("e", ""), ("a", "b")):
                name = pre + ch + post
                rf = RequestField.from_tuples(name, (name + ".txt", "data", "text/plain"))
                got = rf.render_headers()
                want = ('Content-Disposition: form-data; name="%s"; filename="%s"\r\nContent-Type: text/plain\r\n\r\n'
                        % (pre + e + post, pre + e + post + ".txt"))
                if got != want:
                    return _fail("code point U+%04X in %r: header block %r, expected %r" % (c, name, got, want))
        return True
    (block,) = decode_point(idx, block_dims)
    return N._untraced(sweep)(block)


def block_dims(part):
    return [list(range(part["lo"], part["hi"]))]


def c20_block(idx: int) -> bool:
    """
    pre: 0 <= idx < P.n
    post: _
    """
    return run(_block_body, idx)


DIMS = {"c20_block": block_dims}


class MultipartError(Exception):
    pass


def parse_multipart(body: bytes, boundary: bytes):
    """Strict RFC 2046/7578 reader: returns [(header_lines[list of bytes], data bytes)]."""
    delim = b"--" + boundary
    parts = []
    pos = 0
    while True:
        if not body.startswith(delim, pos):
            raise MultipartError("expected delimiter at %d" % pos)
        pos += len(delim)
        if body[pos:pos + 2] == b"--":
            if body[pos + 2:] != b"\r\n":
                raise MultipartError("bytes after the closing delimiter: %r" % body[pos + 2:pos + 20])
            return parts
        if body[pos:pos + 2] != b"\r\n":
            raise MultipartError("delimiter line not terminated by CRLF")
        pos += 2
        hend = body.find(b"\r\n\r\n", pos)
        if hend < 0:
            raise MultipartError("header block not terminated")
        lines = body[pos:hend].split(b"\r\n")
        for ln in lines:
            if b"\r" in ln or b"\n" in ln:
                raise MultipartError("bare CR/LF in part header")
            if b":" not in ln:
                raise MultipartError("malformed part header line %r" % ln)
        pos = hend + 4
        nxt = body.find(b"\r\n" + delim, pos)
        if nxt < 0:
            raise MultipartError("part not terminated")
        parts.append((lines, body[pos:nxt]))
        pos = nxt + 2


def expected_part(name, filename, ctype, data):
    disp = 'Content-Disposition: form-data; name="%s"' % esc(name)
    if filename is not None:
        disp += '; filename="%s"' % esc(filename)
    lines = [disp.encode("utf-8")]
    if ctype:
        lines.append(("Content-Type: " + ctype).encode("utf-8"))
    payload = data.encode("utf-8") if isinstance(data, str) else bytes(data)
    return (lines, payload)


def _layout_body(s, b, nfields, form):
    """One symbolic component `s` (str) or `b` (bytes) placed according to P.which."""
    which = P.which
    specs = []       # (name, filename, ctype, data)
    if which == "name":
        specs.append((s, None, None, "v1"))
    elif which == "filename":
        specs.append(("f", s, "text/plain", "v1"))
    elif which == "data_str":
        specs.append(("f", None, None, s))
    elif which == "data_bytes":
        specs.append(("f", "x.bin", "application/octet-stream", b))
    elif which == "file_data_str":
        specs.append(("f", "a.txt", "text/plain", s))
    extra = [("g", None, None, "--" + BOUNDARY[:2]), ("h", "q\".txt", "text/x", b"\r\n--"), ("i", None, None, "")]
    specs.extend(extra[:nfields])
    if form != 0 and nfields >= 2:
        # list containers may repeat a field name: both parts must come out, in order
        specs.append((specs[0][0], None, None, "again"))
    if form == 0:
        # a dict cannot hold the same name twice
        seen = set()
        specs = [sp for sp in specs if not (sp[0] in seen or seen.add(sp[0]))]
    # input form
    def as_tuple(sp):
        name, fn, ct, data = sp
        if fn is None:
            return (name, data)
        return (name, (fn, data, ct))
    if form == 0:
        fields = dict(as_tuple(sp) for sp in specs)
    elif form == 1:
        fields = [as_tuple(sp) for sp in specs]
    elif form == 3:
        # RequestField objects that were all given the SAME (empty) dict as headers=: each must keep its own header block
        shared = {"X-Shared": "1"}
        fields = []
        for name, fn, ct, data in specs:
            rf = RequestField(name, data, filename=fn, headers=shared)
            rf.make_multipart(content_type=ct)
            fields.append(rf)
    else:
        fields = []
        for name, fn, ct, data in specs:
            rf = RequestField(name, data, filename=fn)
            rf.make_multipart(content_type=ct)
            fields.append(rf)
    body, content_type = encode_multipart_formdata(fields, boundary=BOUNDARY)
    if content_type != "multipart/form-data; boundary=" + BOUNDARY:
        return _fail("content type %r" % content_type)
    try:
        parts = parse_multipart(body, BOUNDARY.encode())
    except MultipartError as e:
        return _fail("strict parser rejects the body: %s" % e)
    exp = [expected_part(*sp) for sp in specs]
    if form == 3:
        exp = [(lines + [b"X-Shared: 1"], payload) for (lines, payload) in exp]
    if len(parts) != len(exp):
        return _fail("%d parts, expected %d" % (len(parts), len(exp)))
    for i, (got, want) in enumerate(zip(parts, exp)):
        if got[0] != want[0]:
            return _fail("part %d headers %r, expected %r" % (i, got[0], want[0]))
        if got[1] != want[1]:
            return _fail("part %d data %r, expected %r" % (i, got[1], want[1]))
    mark(which)
    return True


def c20_layout(s: str, b: bytes, nfields: int, form: int) -> bool:
    """
    pre: len(s) <= P.maxlen and len(b) <= P.maxlen
    pre: all(ch in ALPHAS[P.alpha] for ch in s)
    pre: all(x in (13, 10, 45, 88, 98, 0, 255, 34) for x in b)
    pre: 0 <= nfields <= 3 and form == P.form
    pre: (P.which == "data_bytes") or len(b) == 0
    pre: (P.which != "data_bytes") or len(s) == 0
    pre: BOUNDARY.encode() not in b
    post: _
    """
    return run(_layout_body, s, b, nfields, form)


class _Spy:
    """RequestMethods front-end that records what would be sent."""


def _request_body(caller_ct, generated):
    from urllib3._request_methods import RequestMethods

    class Spy(RequestMethods):
        def urlopen(self, method, url, body=None, headers=None, **kw):
            self.seen = (method, url, body, headers)
            return None

    saved = FP.os.urandom
    try:
        FP.os = type("o", (), {"urandom": staticmethod(lambda n: b"\x01" * n)})
        sp = Spy()
        hdrs = {"Content-Type": "x/y"} if caller_ct == 1 else ({"content-type": "x/z"} if caller_ct == 2 else None)
        sp.request_encode_body("POST", "/", fields={"a": "b"}, headers=hdrs,
                               multipart_boundary=None if generated else BOUNDARY)
    finally:
        import os as _os
        FP.os = _os
    method, url, body, headers = sp.seen
    boundary = "01" * 16 if generated else BOUNDARY
    if caller_ct == 1:
        want = "x/y"
    elif caller_ct == 2:
        want = "x/z"
    else:
        want = "multipart/form-data; boundary=" + boundary
    if headers.get("Content-Type") != want:
        return _fail("Content-Type header %r, expected %r" % (headers.get("Content-Type"), want))
    if len(headers.getlist("content-type")) != 1:
        return _fail("Content-Type header duplicated")
    try:
        parts = parse_multipart(body, boundary.encode())
    except MultipartError as e:
        return _fail("body: %s" % e)
    return len(parts) == 1


def c20_request(caller_ct: int, generated: bool) -> bool:
    """
    pre: 0 <= caller_ct <= 2
    post: _
    """
    return run(_request_body, caller_ct, generated)


def JOBS(tier):
    quick = tier == "quick"
    t = 150 if quick else 900
    ml = 2 if quick else 3
    jobs = [{"func": "c20_char", "part": {}, "timeout": t},
            {"func": "c20_render", "part": {"where": 0, "via_tuple": False}, "timeout": t},
            {"func": "c20_render", "part": {"where": 1, "via_tuple": False}, "timeout": t},
            {"func": "c20_render", "part": {"where": 0, "via_tuple": True}, "timeout": t},
            {"func": "c20_render", "part": {"where": 1, "via_tuple": True}, "timeout": t},
            {"func": "c20_param", "part": {"maxlen": 3 if quick else 4}, "timeout": t},
            {"func": "c20_request", "part": {}, "timeout": t},
            ] + [{"func": "c20_block", "part": {"lo": lo, "hi": min(lo + 0x22, 0x110)}, "timeout": max(t, 300), "path_timeout": 120,
                  "samples": 1} for lo in range(0, 0x110, 0x22)]
    for which in ("name", "filename", "data_str", "data_bytes", "file_data_str"):
        for form in (0, 1, 2, 3):
            if form == 3 and which not in ("name", "filename"):
                continue
            jobs.append({"func": "c20_layout", "part": {"which": which, "maxlen": 2, "form": form, "alpha": 0 if quick else 1},
                         "timeout": t})
    return jobs


EVIDENCE = {
    "bounds": {"blocks": "c20_block: EVERY code point U+0000..U+10FFFF (surrogates excepted) alone, after a base letter and between "
                         "letters, in name and filename, through from_tuples + render_headers (272 blocks enumerated by the solver, "
                         "each block swept natively)",
               "quick": "per-character lemma: every code point 0..0x10FFFF (one symbolic int); strings <= 3 chars over the 9-char "
                        "hostile alphabet for the parameter; layout: one symbolic component <= 2 chars/bytes, 0..3 extra concrete "
                        "fields, dict/list-of-tuples/RequestField input",
               "thorough": "parameter strings <= 4; layout component <= 2 chars over the 14-character alphabet (adds VT, NEL, LS, '=', '%')"},
    "outside": ["components outside the 9-character / 8-byte alphabets in the layout harness (io.BytesIO realises them: one "
                "path per value); lone surrogates (not encodable as UTF-8)", "mimetypes guessing for symbolic filenames"],
    "stubs": ["os.urandom in filepost (generated boundary) -> constant"],
    "assumptions": ["boundary does not occur in the data (property precondition)"],
}
