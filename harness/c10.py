"""C10 — no input can inject into or split the HTTP request on the wire.

LEMMAS (E2, strings of ANY length, on the live compiled patterns of urllib3 AND of the http.client it relies on):
  * a method that passes urllib3's check consists of RFC 9110 token characters only;
  * a target that passes http.client's check contains no byte <= 0x20 and no DEL;
  * an accepted header name contains no CR, LF or ':'; an accepted header value contains CR/LF only as obs-fold
    (CR LF followed by SP/HTAB) — so neither can start a new header line or end the header block;
  * HTTP/2: accepted names are lower-case tokens, accepted values contain no NUL/CR/LF and no leading/trailing SP/HTAB.
c10_field  (E1): one hostile field (method / target / header name / header value) of <= n characters over the alphabet
  {CR, LF, NUL, DEL, SP, HTAB, ':', '%', '#', '?', 'a', 'é', '€'} through HTTPConnection.request, HTTPConnectionPool.urlopen and
  PoolManager.request; the bytes written are either none (an exception was raised first) or exactly one request whose
  request line and header lines are the requested ones.
c10_auto   (E1): automatic Host / Accept-Encoding / User-Agent appear exactly when not supplied or suppressed (SKIP_HEADER),
  supplied names in symbolic casing.
c10_h2     (E1): HTTP2Connection.putheader with a hostile name / value.
"""
from __future__ import annotations

import http.client
import re

from kit.h import P, run, mark, known, concretize, decode_point
from kit import net as N
from kit import env as E

import urllib3
import urllib3.connection as C
from urllib3 import HTTPConnectionPool, PoolManager
from urllib3.connection import HTTPConnection
from urllib3.exceptions import HTTPError, LocationParseError
from urllib3.util import SKIP_HEADER

ALPHABET = "\r\n\x00\x7f \t:%#?aé€/"
TCHAR = "!#$%&'*+-.^_`|~0123456789abcdefghijklmnopqrstuvwxyzABCDEFGHIJKLMNOPQRSTUVWXYZ"

UNRESERVED = "ABCDEFGHIJKLMNOPQRSTUVWXYZabcdefghijklmnopqrstuvwxyz0123456789._-~"
SUB_DELIMS = "!$&'()*+,;="
PATH_OK = UNRESERVED + SUB_DELIMS + ":@/"
QUERY_OK = PATH_OK + "?"
HEXU = "0123456789ABCDEF"


def _fail(msg):
    from kit import h
    h.INFO["why"] = msg
    return False


class Sink(N.BaseHandler):
    """Accepts everything, answers one canned response per connection once a full header block has arrived."""

    def on_read(self, sock):
        if not getattr(sock, "_answered", False) and b"\r\n\r\n" in sock.tx:
            sock._answered = True
            return N.response_bytes(200, "OK", body=b"")
        return b""


def ref_encode(component, allowed):
    """urllib3's documented rule, written independently: UTF-8 bytes outside `allowed` become %HH (upper-case); a valid
    %HH escape is kept (upper-cased) provided every '%' of the component starts a valid escape."""
    valid = len(re.findall(r"%[0-9a-fA-F]{2}", component))
    all_valid = valid == component.count("%")
    comp = re.sub(r"%[0-9a-fA-F]{2}", lambda m: m.group(0).upper(), component)
    out = ""
    for byte in comp.encode("utf-8", "surrogatepass"):
        ch = chr(byte)
        if (byte < 128 and ch in allowed) or (ch == "%" and all_valid):
            out += ch
        else:
            out += "%" + HEXU[byte >> 4] + HEXU[byte & 15]
    return out


def ref_target(target):
    """Fragment dropped, path and query encoded separately."""
    t = target.split("#", 1)[0]
    if "?" in t:
        p, q = t.split("?", 1)
        return ref_encode(p, PATH_OK) + "?" + ref_encode(q, QUERY_OK)
    return ref_encode(t, PATH_OK)


def split_head(tx: bytes):
    """Structural reading of what was written: (request line, [header lines with obs-fold joined], rest) or None."""
    end = tx.find(b"\r\n\r\n")
    if end < 0:
        return None
    lines = tx[:end].split(b"\r\n")
    rl = lines[0]
    fields = []
    for ln in lines[1:]:
        if ln[:1] in (b" ", b"\t") and fields:
            fields[-1] = fields[-1] + b"\r\n" + ln
        else:
            fields.append(ln)
    return rl, fields, tx[end + 4:]


def check_wire(tx, method, want_target, user_fields, host_expected=b"h",
               auto=("host", "accept-encoding", "user-agent", "content-length")):
    """None if `tx` is exactly one request with the requested request line and header lines."""
    sh = split_head(tx)
    if sh is None:
        return "bytes were written but no complete header block: %r" % (tx[:120],)
    rl, fields, rest = sh
    want_rl = method.encode("latin-1") + b" " + want_target.encode("ascii") + b" HTTP/1.1"
    if rl != want_rl:
        return "request line %r, requested %r" % (rl, want_rl)
    if rest:
        return "bytes after the header block of a body-less request: %r" % (rest[:80],)
    seen_user = []
    for f in fields:
        i = f.find(b":")
        if i <= 0:
            return "malformed header line %r" % (f,)
        name = f[:i]
        value = f[i + 1:]
        nl = name.lower()
        matched = False
        for (un, uv) in user_fields:
            if un == name:
                # value: equal after OWS trimming (http.client writes 'name: value'); obs-fold bytes are kept verbatim
                if value.strip(b" \t") == uv.strip(b" \t") or value == b" " + uv:
                    matched = True
                    seen_user.append((un, uv))
                    break
        if matched:
            continue
        if nl.decode("latin-1") in auto and not any(un.lower() == nl for un, _ in user_fields):
            continue
        return "header line %r was not requested (requested %r)" % (f, user_fields)
    for uf in user_fields:
        if uf not in seen_user:
            return "requested header %r missing on the wire" % (uf,)
    return None


def _send(front, method, target, headers):
    """Returns (exception or None, bytes written across all sockets)."""
    netw = N.install(Sink())
    E.install_clock()
    exc = None
    try:
        try:
            if front == 0:
                conn = HTTPConnection("h", 80)
                conn.request(method, target, headers=headers)
            elif front == 1:
                HTTPConnectionPool("h", 80).urlopen(method, target, headers=headers, retries=False)
            else:
                PoolManager().request(method, "http://h" + target, headers=headers, retries=False)
        except Exception as e:
            exc = e
        tx = b"".join(s.tx for s in netw.socks)
        return exc, tx
    finally:
        N.uninstall()
        E.uninstall_clock()


def _field_body(x):
    field = P.field
    front = P.front
    method, target, hname, hvalue = "GET", "/p", "X-A", "v"
    if field == "method":
        method = x
    elif field == "target":
        target = "/" + x
    elif field == "hname":
        hname = x
    else:
        hvalue = x
    headers = {hname: hvalue}
    exc, tx = _send(front, method, target, headers)
    if exc is not None:
        mark("rejected")
        if tx:
            return _fail("%s=%r: %r raised after %d bytes were written: %r" % (field, x, exc, len(tx), tx[:100]))
        if not isinstance(exc, (ValueError, HTTPError, UnicodeError, TypeError, http.client.HTTPException)):
            return _fail("%s=%r: unexpected exception %r" % (field, x, exc))
        return True
    mark("sent")
    if front == 0:
        want_target = target          # HTTPConnection.request sends the target as given (http.client validated it)
    elif front == 1:
        want_target = ref_target(target)
    else:
        want_target = ref_target(target)
        if want_target == "":
            want_target = "/"
    try:
        un = hname.encode("ascii")
        uv = hvalue.encode("latin-1")
    except UnicodeError:
        return _fail("%s=%r was sent although it cannot be encoded" % (field, x))
    # PoolManager.request()/RequestMethods upper-case the method name (documented normalisation)
    why = check_wire(tx, method.upper() if front == 2 else method, want_target, [(un, uv)])
    if why:
        return _fail("%s=%r: %s | wire=%r" % (field, x, why, tx[:200]))
    # nothing the caller supplied may contain a bare CR/LF on the wire outside obs-fold
    head = tx[:tx.find(b"\r\n\r\n")]
    # http.client (CPython) lets CR, LF or CRLF through inside a value only when SP/HTAB follows: a folded continuation of
    # the same field, never a new header line
    head = re.sub(rb"(\r\n|\r|\n)(?=[ \t])", b"", head)
    for ln in head.split(b"\r\n"):
        if b"\r" in ln or b"\n" in ln:
            return _fail("%s=%r: bare CR/LF inside a line: %r" % (field, x, ln))
    return True


def strings_upto(alphabet, n):
    out = [""]
    layer = [""]
    for _ in range(n):
        layer = [a + ch for a in layer for ch in alphabet]
        out.extend(layer)
    return out


_STR_CACHE = {}


def field_dims(part):
    key = (part.get("alphabet", ALPHABET), part["maxlen"])
    if key not in _STR_CACHE:
        _STR_CACHE[key] = strings_upto(*key)
    return [_STR_CACHE[key]]


def _field_point(idx):
    (x,) = decode_point(idx, field_dims)
    return N._untraced(_field_body)(x)


def c10_field(idx: int) -> bool:
    """
    pre: 0 <= idx < P.n
    post: _
    """
    return run(_field_point, idx)


AUTO = ["Host", "Accept-Encoding", "User-Agent"]


def _auto_body(front, mask, skipmask, cv):
    """mask bit i: the caller supplies AUTO[i] (casing variant cv); skipmask bit i: ... as SKIP_HEADER."""
    headers = {}
    user = []
    for i, nm in enumerate(AUTO):
        if (mask >> i) & 1:
            name = [nm.lower(), nm.upper(), nm, nm.swapcase()][cv]
            if (skipmask >> i) & 1:
                headers[name] = SKIP_HEADER
            else:
                headers[name] = "mine%d" % i
                user.append((name.encode(), b"mine%d" % i))
    exc, tx = _send(front, "GET", "/p", headers)
    if exc is not None:
        return _fail("supplying %r raised %r" % (headers, exc))
    sh = split_head(tx)
    if sh is None:
        return _fail("no request written")
    rl, fields, rest = sh
    names = [f[:f.find(b":")].lower() for f in fields]
    for i, nm in enumerate(AUTO):
        cnt = names.count(nm.lower().encode())
        supplied = (mask >> i) & 1
        skipped = supplied and (skipmask >> i) & 1
        want = 0 if skipped else 1
        if cnt != want:
            return _fail("%s appears %d times (supplied=%s, skipped=%s): %r" % (nm, cnt, bool(supplied), bool(skipped), fields))
        if supplied and not skipped:
            if (nm.lower().encode(), b"mine%d" % i) not in [(f[:f.find(b":")].lower(), f[f.find(b":") + 1:].strip()) for f in fields]:
                return _fail("caller's %s was replaced: %r" % (nm, fields))
    why = check_wire(tx, "GET", "/p", user)
    if why:
        return _fail(why)
    mark("auto %d" % mask)
    return True


def auto_dims(part):
    masks = [(m, sk) for m in range(8) for sk in range(8) if not (sk & ~m)]
    return [masks, [0, 1, 2, 3]]


def _auto_point(idx):
    (mask, sk), cv = decode_point(idx, auto_dims)
    return N._untraced(_auto_body)(P.front, mask, sk, cv)


def c10_auto(idx: int) -> bool:
    """
    pre: 0 <= idx < P.n
    post: _
    """
    return run(_auto_point, idx)


def _skip_body(x):
    """SKIP_HEADER is honoured only for the three skippable headers: for any other name it must raise, not silently drop."""
    name = "X-" + x
    exc, tx = _send(0, "GET", "/p", {name: SKIP_HEADER})
    if exc is None:
        return _fail("SKIP_HEADER accepted for %r: %r" % (name, tx[:100]))
    if tx:
        return _fail("bytes written before SKIP_HEADER was refused")
    return True


def body_dims(part):
    return [[0, 1, 2], ["str", "bytes", "list_str", "gen_str", "list_bytes", "bytearray", "array_H", "mv_I"], strings_upto("\r\n\u00e9\u20aca0", part["maxlen"]), [False, True]]


def _body_point(idx):
    front, kind, x, chunked = decode_point(idx, body_dims)
    return N._untraced(_body_body)(front, kind, x, chunked)


def _body_body(front, kind, x, chunked):
    """A hostile BODY can never start a second request: whatever its type, the bytes after the header block are exactly the
    framed payload (str as UTF-8) — in particular a chunk's announced size is its BYTE length."""
    smuggle = x + "\r\n0\r\n\r\nGET /smuggled HTTP/1.1\r\nHost: h\r\n\r\n"
    data = smuggle.encode("utf-8")
    if kind in ("array_H", "mv_I"):
        # buffers whose items are wider than a byte: lengths must be counted in BYTES (the smuggled request sits in the
        # second half, where a length taken in items would end the body early)
        import array
        w = 2 if kind == "array_H" else 4
        data = data + b" " * (-len(data) % w)
        body = array.array("H", data) if kind == "array_H" else memoryview(bytearray(data)).cast("I")
    else:
        body = {"str": smuggle, "bytes": data, "list_str": [x, smuggle[len(x):]], "gen_str": (c for c in [x, smuggle[len(x):]]),
                "list_bytes": [x.encode("utf-8"), smuggle[len(x):].encode("utf-8")], "bytearray": bytearray(data)}[kind]
    netw = N.install(Sink())
    E.install_clock()
    try:
        exc = None
        try:
            if front == 0:
                HTTPConnection("h", 80).request("POST", "/p", body=body, chunked=chunked)
            elif front == 1:
                HTTPConnectionPool("h", 80).urlopen("POST", "/p", body=body, chunked=chunked, retries=False)
            else:
                PoolManager().request("POST", "http://h/p", body=body, chunked=chunked, retries=False)
        except (HTTPError, ValueError, TypeError) as e:
            exc = e
        tx = b"".join(s.tx for s in netw.socks)
        if exc is not None:
            return True if not tx else _fail("body %s: %r raised after bytes were written" % (kind, exc))
        try:
            reqs, rest = N.parse_requests(tx)
        except N.ParseError as e:
            return _fail("body %s %r: the wire is not one well-formed request: %s | %r" % (kind, x, e, tx[-120:]))
        if len(reqs) != 1 or rest:
            return _fail("body %s %r (chunked=%s): %d requests on the wire, %d stray bytes: %r"
                         % (kind, x, chunked, len(reqs), len(rest), [r["target"] for r in reqs]))
        if reqs[0]["body"] != data:
            return _fail("body %s %r: payload on the wire %r != %r" % (kind, x, reqs[0]["body"][:60], data[:60]))
        mark("one request")
        return True
    finally:
        N.uninstall()
        E.uninstall_clock()


def c10_body(idx: int) -> bool:
    """
    pre: 0 <= idx < P.n
    post: _
    """
    return run(_body_point, idx)


def skip_dims(part):
    return [strings_upto("aA-1", 2)]


def _skip_point(idx):
    (x,) = decode_point(idx, skip_dims)
    return N._untraced(_skip_body)(x)


def c10_skip(idx: int) -> bool:
    """
    pre: 0 <= idx < P.n
    post: _
    """
    return run(_skip_point, idx)


def _h2_body(x, which, as_bytes):
    from urllib3.http2.connection import HTTP2Connection
    conn = HTTP2Connection("h", 443)
    name, value = ("x-a", "v")
    if which == 0:
        name = x
    else:
        value = x
    try:
        n_arg = name.encode("latin-1") if as_bytes else name
        v_arg = value.encode("latin-1") if as_bytes else value
    except UnicodeError:
        return True
    before = list(conn._headers)
    try:
        conn.putheader(n_arg, v_arg)
    except ValueError:
        mark("h2 rejected")
        return conn._headers == before or _fail("rejected header left a trace")
    except UnicodeError:
        return conn._headers == before or _fail("rejected header left a trace")
    added = conn._headers[len(before):]
    nb = name.encode("utf-8") if not as_bytes else name.encode("latin-1")
    vb = value.encode("utf-8") if not as_bytes else value.encode("latin-1")
    # RFC 9113 8.2.1: names lower-case tokens; values without NUL/CR/LF, no leading/trailing SP/HTAB
    nl = nb.lower()
    if not nl or any(chr(c) not in TCHAR or chr(c).isupper() for c in nl):
        return _fail("h2 accepted header name %r" % (nb,))
    if any(c in (0, 10, 13) for c in vb) or vb[:1] in (b" ", b"\t") or vb[-1:] in (b" ", b"\t"):
        return _fail("h2 accepted header value %r" % (vb,))
    if added != [(nl, vb)]:
        return _fail("h2 stored %r for (%r, %r)" % (added, nb, vb))
    mark("h2 accepted")
    return True


def h2_dims(part):
    return [strings_upto(ALPHABET + "A", part["maxlen"]), [0, 1], [False, True]]


def _h2_point(idx):
    x, which, as_bytes = decode_point(idx, h2_dims)
    return N._untraced(_h2_body)(x, which, as_bytes)


def c10_h2(idx: int) -> bool:
    """
    pre: 0 <= idx < P.n
    post: _
    """
    return run(_h2_point, idx)


# ---- a rejected call, then a good one through the same object ---------------------------------------------------------------

REJECTS = [
    ("header value with CR LF", lambda: dict(method="DELETE", target="/admin", headers={"X-A": "a\r\nX-Injected: 1"})),
    ("header value outside latin-1", lambda: dict(method="DELETE", target="/admin", headers={"X-A": "€"})),
    ("header name with a colon", lambda: dict(method="DELETE", target="/admin", headers={"X:A": "v"})),
    ("header name with LF", lambda: dict(method="DELETE", target="/admin", headers={"X\nA": "v"})),
    ("unsupported body type", lambda: dict(method="DELETE", target="/admin", headers={"X-A": "1"}, body=object())),
    ("method with a space", lambda: dict(method="DEL ETE", target="/admin", headers={})),
    ("target with a space and LF", lambda: dict(method="DELETE", target="/ad min\nX: 1", headers={}, raw=True)),
    ("second header of three is bad", lambda: dict(method="PUT", target="/admin", headers={"A": "1", "B": "x\ny", "C": "3"})),
]
SECOND = [("GET", "/second", {}), ("POST", "/second?x=1", {"X-Mine": "yes"})]


class SinkAll(N.BaseHandler):
    """Answers every complete header block once (several requests per connection)."""

    def on_read(self, sock):
        n = sock.tx.count(b"\r\n\r\n")
        if n > getattr(sock, "_n", 0):
            sock._n = n
            return N.response_bytes(200, "OK", body=b"")
        return b""


def _reuse_body(front, ri, si, between):
    """Whatever the first call was rejected for, it must leave nothing behind: the next call through the same connection /
    pool / manager writes exactly its own request."""
    name, mk = REJECTS[ri]
    first = mk()
    method2, target2, hdrs2 = SECOND[si]
    netw = N.install(SinkAll())
    E.install_clock()
    try:
        if front == 0:
            obj = HTTPConnection("h", 80)

            def call(method, target, headers, body=None, raw=False):
                obj.request(method, target, headers=headers, body=body)
        elif front == 1:
            obj = HTTPConnectionPool("h", 80, maxsize=1)

            def call(method, target, headers, body=None, raw=False):
                obj.urlopen(method, target, headers=headers, body=body, retries=False)
        else:
            obj = PoolManager(maxsize=1)

            def call(method, target, headers, body=None, raw=False):
                obj.request(method, "http://h" + target, headers=headers, body=body, retries=False)
        if between == 2:
            # a good request first, so that the rejected one runs on an established keep-alive connection
            try:
                call("GET", "/zero", {})
            except Exception as e:
                return _fail("warm-up request failed: %r" % (e,))
        before = sum(len(s.tx) for s in netw.socks)
        exc = None
        try:
            call(**first)
        except Exception as e:
            exc = e
        written = b"".join(bytes(s.tx) for s in netw.socks)[before:] if len(netw.socks) <= 1 else b"".join(bytes(s.tx) for s in netw.socks)[before:]
        if exc is None:
            # accepted (e.g. percent-encoded): then it must be one clean request — c10_field's subject; not repeated here
            return True
        if written:
            return _fail("%s: rejected with %r but %r was written" % (name, exc, written[:80]))
        if front == 0 and between >= 1:
            obj.close()            # what a caller does with a connection whose request() raised
        elif front == 0:
            # without close() http.client refuses to start another request on a connection that is mid-request: fine either way
            pass
        marks = [len(s.tx) for s in netw.socks]
        exc2 = None
        try:
            call(method2, target2, dict(hdrs2))
        except Exception as e:
            exc2 = e
        new = b""
        for i, sk in enumerate(netw.socks):
            new += bytes(sk.tx)[marks[i] if i < len(marks) else 0:]
        if exc2 is not None:
            if new:
                return _fail("%s then %s %s: failed with %r after writing %r" % (name, method2, target2, exc2, new[:120]))
            mark("second call refused cleanly")
            return True
        uf = [(k.encode(), v.encode()) for k, v in hdrs2.items()]
        problem = check_wire(new, method2, target2, uf)
        if problem:
            return _fail("front %d, %s, then %s %s: %s | wire %r" % (front, name, method2, target2, problem, new[:200]))
        mark("clean second request")
        return True
    finally:
        N.uninstall()
        E.uninstall_clock()


def reuse_dims(part):
    return [[0, 1, 2], list(range(len(REJECTS))), list(range(len(SECOND))), [0, 1, 2]]


def _reuse_point(idx):
    return N._untraced(_reuse_body)(*decode_point(idx, reuse_dims))


def c10_reuse(idx: int) -> bool:
    """
    pre: 0 <= idx < P.n
    post: _
    """
    return run(_reuse_point, idx)


# ---- absolute-form targets: the same encoding rules whatever the spelling of the scheme ----------------------------------------

ABS_ALPHA = '<>\\^`{|}" \u00e9%#?a/'
ABS_SCHEMES = ["http", "HTTP", "Http"]


def abs_dims(part):
    return [[0, 1], list(range(len(ABS_SCHEMES))), strings_upto(ABS_ALPHA, part["maxlen"])]


def _abs_body(front, si, x):
    """An absolute URL handed to a pool (front 0) or sent through a forwarding proxy (front 1): the request-target on the wire is
    the absolute-form of the normalised URL — illegal characters percent-encoded, fragment dropped — however the scheme is
    spelled."""
    from urllib3 import ProxyManager
    url = "%s://h/%s" % (ABS_SCHEMES[si], x)
    netw = N.install(Sink())
    E.install_clock()
    exc = None
    try:
        try:
            if front == 0:
                HTTPConnectionPool("h", 80).urlopen("GET", url, retries=False, assert_same_host=False)
            else:
                ProxyManager("http://proxy:3128").request("GET", url, retries=False)
        except Exception as e:
            exc = e
        tx = b"".join(s.tx for s in netw.socks)
    finally:
        N.uninstall()
        E.uninstall_clock()
    if exc is not None:
        if tx:
            return _fail("%r: %r raised after bytes were written: %r" % (url, exc, tx[:100]))
        if not isinstance(exc, (ValueError, HTTPError, UnicodeError, http.client.HTTPException)):
            return _fail("%r: unexpected exception %r" % (url, exc))
        mark("rejected")
        return True
    want = "http://h" + ref_target("/" + x)
    sh = split_head(tx)
    if sh is None:
        return _fail("%r: no complete header block: %r" % (url, tx[:100]))
    rl = sh[0]
    if rl != b"GET " + want.encode("ascii") + b" HTTP/1.1":
        return _fail("%r (front %d): request line %r, expected target %r" % (url, front, rl, want))
    mark("sent")
    return True


def _abs_point(idx):
    return N._untraced(_abs_body)(*decode_point(idx, abs_dims))


def c10_abs(idx: int) -> bool:
    """
    pre: 0 <= idx < P.n
    post: _
    """
    return run(_abs_point, idx)


DIMS = {"c10_body": body_dims, "c10_field": field_dims, "c10_auto": auto_dims, "c10_skip": skip_dims, "c10_h2": h2_dims,
        "c10_reuse": reuse_dims, "c10_abs": abs_dims}


# ---- E2 lemmas -------------------------------------------------------------------------------------------------------

def LEMMAS(tier):
    import http.client as hc
    import z3
    from engine import re2smt as R
    import urllib3.http2.connection as H2
    out = []

    def lemma(name, regex, replay, query):
        try:
            out.append(R.decide_empty(name, regex, replay=replay, query=query, timeout=120))
        except R.Unsupported as e:
            out.append({"name": name, "verdict": "inconclusive", "detail": "unsupported: %s" % e})

    def validated(name, tr, L, accept, k=10):
        bad = []
        n = 0
        for w in R.models(L, k):
            n += 1
            if not accept(w):
                bad.append(("in L, engine disagrees", w))
        for w in R.models(z3.Intersect(z3.Complement(L), tr.alphabet_star()), k):
            n += 1
            if accept(w):
                bad.append(("not in L, engine disagrees", w))
        out.append({"name": "translator agrees with re engine on " + name, "query": "solver-drawn members of L and ~L vs the real pattern",
                    "verdict": "holds" if not bad else "inconclusive", "validated": n, "queries": n, "seconds": 0,
                    "detail": repr(bad[:3]) if bad else ""})

    k = 10 if tier == "quick" else 40
    tchar = R.chars(TCHAR)
    # 1. method: urllib3's own check
    try:
        mt = R.Translator(C._CONTAINS_CONTROL_CHAR_RE)
        bad_method = mt.search_language()                     # strings the check refuses
        validated("_CONTAINS_CONTROL_CHAR_RE", mt, bad_method, lambda w: C._CONTAINS_CONTROL_CHAR_RE.search(w) is not None, k)
        lemma("a method that passes urllib3's check is made of token characters only",
              z3.Intersect(z3.Complement(bad_method), z3.Complement(z3.Star(tchar))),
              lambda w: C._CONTAINS_CONTROL_CHAR_RE.search(w) is None and any(c not in TCHAR for c in w),
              "exists m. not search(_CONTAINS_CONTROL_CHAR_RE, m) and m has a non-token character")
    except R.Unsupported as e:
        out.append({"name": "method lemma", "verdict": "inconclusive", "detail": str(e)})
    # 2. target: http.client's check (the code urllib3 relies on for HTTPConnection.request)
    try:
        ut = R.Translator(hc._contains_disallowed_url_pchar_re)
        bad_url = ut.search_language()
        validated("http.client._contains_disallowed_url_pchar_re", ut, bad_url,
                  lambda w: hc._contains_disallowed_url_pchar_re.search(w) is not None, k)
        ctl = R._ranges_to_re([(0, 0x20), (0x7F, 0x7F)])
        lemma("a target that passes http.client's check has no byte <= 0x20 and no DEL",
              z3.Intersect(z3.Complement(bad_url), z3.Concat(R.sigma_star(), ctl, R.sigma_star())),
              lambda w: hc._contains_disallowed_url_pchar_re.search(w) is None and any(ord(c) <= 0x20 or ord(c) == 0x7F for c in w),
              "exists t. not search(disallowed_url_pchar, t) and t contains a control character or space")
    except R.Unsupported as e:
        out.append({"name": "target lemma", "verdict": "inconclusive", "detail": str(e)})
    # 3. header names / values: http.client's checks
    try:
        pn = hc._is_legal_header_name.__self__
        nt = R.Translator(pn)
        Ln = nt.language()
        validated("http.client._is_legal_header_name", nt, Ln, lambda w: pn.fullmatch(w.encode("latin-1")) is not None, k)
        lemma("an accepted header name contains no CR, LF or ':'",
              z3.Intersect(Ln, R.contains_any("\r\n:")),
              lambda w: pn.fullmatch(w.encode("latin-1")) is not None and any(c in "\r\n:" for c in w),
              "exists n in L(_is_legal_header_name). n contains CR, LF or ':'")
        pv = hc._is_illegal_header_value.__self__
        vt = R.Translator(pv)
        Lbad = vt.search_language()
        validated("http.client._is_illegal_header_value", vt, Lbad, lambda w: pv.search(w.encode("latin-1")) is not None, k)
        sig = vt.alphabet_star()
        not_fold_lf = z3.Concat(sig, R.lit("\n"), z3.Union(R.lit(""), z3.Concat(R._ranges_to_re([(0, 8), (10, 31), (33, 255)]), sig)))
        lemma("an accepted header value never has LF unless SP/HTAB follows (obs-fold)",
              z3.Intersect(z3.Complement(Lbad), sig, z3.Union(
                  z3.Concat(sig, R.lit("\n")),
                  z3.Concat(sig, R.lit("\n"), R._ranges_to_re([(0, 8), (10, 31), (33, 255)]), sig))),
              lambda w: pv.search(w.encode("latin-1")) is None and re.search(r"\n(?![ \t])", w) is not None,
              "exists v accepted. v has LF at the end or followed by a character other than SP/HTAB")
        lemma("an accepted header value never has CR unless LF/SP/HTAB follows",
              z3.Intersect(z3.Complement(Lbad), sig, z3.Union(
                  z3.Concat(sig, R.lit("\r")),
                  z3.Concat(sig, R.lit("\r"), R._ranges_to_re([(0, 8), (11, 31), (33, 255)]), sig))),
              lambda w: pv.search(w.encode("latin-1")) is None and re.search(r"\r(?![ \t\n])", w) is not None,
              "exists v accepted. v has CR at the end or followed by a character other than LF/SP/HTAB")
    except (R.Unsupported, AttributeError) as e:
        out.append({"name": "header lemmas", "verdict": "inconclusive", "detail": repr(e)})
    # 4. HTTP/2
    try:
        h2n = R.Translator(H2.RE_IS_LEGAL_HEADER_NAME)
        Ln2 = h2n.language()       # ^...$ : `$` admits a final newline
        validated("RE_IS_LEGAL_HEADER_NAME", h2n, Ln2, lambda w: H2.RE_IS_LEGAL_HEADER_NAME.match(w.encode("latin-1")) is not None, k)
        lower_tok = R.chars("!#$%&'*+-.^_`|~0123456789abcdefghijklmnopqrstuvwxyz")
        # _is_legal_header_name decides with fullmatch/match of the live pattern: take the language of whichever the
        # function really implements by asking it about the one string where they differ ("a" + LF)
        Lname = Ln2 if H2._is_legal_header_name(b"a\n") else z3.Intersect(Ln2, z3.Complement(z3.Concat(h2n.alphabet_star(), R.lit("\n"))))
        lemma("HTTP/2: an accepted header name is a non-empty lower-case token",
              z3.Intersect(Lname, z3.Complement(z3.Plus(lower_tok))),
              lambda w: H2._is_legal_header_name(w.encode("latin-1")) and re.fullmatch(r"[!#$%&'*+\-.^_`|~0-9a-z]+", w) is None,
              "exists n. match(RE_IS_LEGAL_HEADER_NAME, n) and n is not tchar-lowercase+")
        h2v = R.Translator(H2.RE_IS_ILLEGAL_HEADER_VALUE)
        Lbad2 = h2v.search_language()
        validated("RE_IS_ILLEGAL_HEADER_VALUE", h2v, Lbad2, lambda w: H2.RE_IS_ILLEGAL_HEADER_VALUE.search(w.encode("latin-1")) is not None, k)
        sig2 = h2v.alphabet_star()
        ws = R.chars(" \t")
        illegal_ref = z3.Union(z3.Concat(sig2, R.chars("\x00\r\n"), sig2), z3.Concat(ws, sig2), z3.Concat(sig2, ws))
        lemma("HTTP/2: every value with NUL/CR/LF or leading/trailing SP/HTAB is refused",
              z3.Intersect(illegal_ref, z3.Complement(Lbad2), sig2),
              lambda w: not H2._is_illegal_header_value(w.encode("latin-1")) and (
                  any(c in "\x00\r\n" for c in w) or w[:1] in (" ", "\t") or w[-1:] in (" ", "\t")),
              "exists v not refused. v has NUL/CR/LF or leading/trailing whitespace")
    except R.Unsupported as e:
        out.append({"name": "http2 lemmas", "verdict": "inconclusive", "detail": str(e)})
    return out


def JOBS(tier):
    quick = tier == "quick"
    t = 170 if quick else 900
    jobs = []
    for front in (0, 1, 2):
        for field in ("method", "target", "hname", "hvalue"):
            jobs.append({"func": "c10_field", "timeout": t, "path_timeout": 60, "samples": 1,
                         "part": {"front": front, "field": field, "maxlen": 3 if quick else 4}})
        jobs.append({"func": "c10_auto", "timeout": t, "part": {"front": front}})
    jobs.append({"func": "c10_skip", "timeout": t, "part": {}})
    jobs.append({"func": "c10_body", "timeout": t, "samples": 1, "part": {"maxlen": 2 if quick else 3}})
    jobs.append({"func": "c10_h2", "timeout": t, "part": {"maxlen": 2 if quick else 3}})
    jobs.append({"func": "c10_reuse", "timeout": t, "samples": 1, "part": {}})
    jobs.append({"func": "c10_abs", "timeout": t, "samples": 1, "part": {"maxlen": 2 if quick else 3}})
    return jobs


EVIDENCE = {
    "bounds": {"quick": "E2 lemmas: strings of any length over the full code-point range (bytes patterns: 0..255); E1: one hostile field "
                        "(method, target after '/', header name, header value) of <= 3 characters over the 14-character alphabet "
                        "{CR,LF,NUL,DEL,SP,HTAB,':','%','#','?','a','é','€','/'} x 3 entry points; automatic headers: 8 supply masks x "
                        "skip masks x 4 casings x 3 entry points; HTTP/2 putheader with <= 2 hostile characters as str and bytes",
               "thorough": "fields of <= 4 characters, HTTP/2 <= 3"},
    "outside": ["hostile strings longer than the bound in E1 (the E2 lemmas cover any length for the validation patterns)",
                "body framing in general (C11); here only: a hostile body (str/bytes/str chunks/byte chunks with an embedded request) stays one request", "HTTP/2 framing (h2 package)"],
    "stubs": ["create_connection -> MemSock", "clock constant", "logging disabled"],
    "assumptions": ["a header value '\\r\\n\\t...' is written by http.client as an obs-fold continuation of the same field: not an added "
                    "header line", "hostile fields are solver-enumerated (one model per path) because they reach the regex engine and codecs"],
}
