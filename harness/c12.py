"""C12 — every way of reading a response yields the same bytes.

c12_script  : a response produced by the real HTTPConnection.request/getresponse over an in-memory socket
              (http.client's reader is in the loop) for one concrete fixture (payload x coding x framing); symbolic:
              network segmentation size, a prefix script of <= 3 calls (kind and amount each), the finisher kind and
              its amount, decode_content.  Asserts: concatenation == expected bytes, read(n)/readinto(n) short only at
              the end, no empty piece from stream/read_chunked/iteration, reads after the end return b"".
c12_preload : preload_content=True: .data equals the same bytes, for every segmentation.
"""
from __future__ import annotations

from kit.h import P, run, mark, known, decode_point
from kit import net as N
from kit.fixtures import FIXTURES, BY_NAME

import urllib3
from urllib3.connection import HTTPConnection

K_READN, K_READ1N, K_READINTO, K_READ0, K_READ1, K_READALL = range(6)
KIND_NAMES = ["read(n)", "read1(n)", "readinto(n)", "read(0)", "read1()", "read()"]
F_READ, F_LOOP_READ, F_LOOP_READ1, F_LOOP_READINTO, F_STREAM, F_READ_CHUNKED, F_ITER, F_STREAM_NONE, F_DATA = range(9)
FIN_NAMES = ["read()", "loop read(m)", "loop read1(m)", "loop readinto(m)", "stream(m)", "read_chunked(m)", "iter",
             "stream(None)", ".data twice"]


class BodyPeer(N.BaseHandler):
    """Delivers the header block, then the body wire in `seg`-byte segments, then EOF."""

    def __init__(self, head, body, seg):
        self.head = head
        self.body = body
        self.seg = seg
        self.pos = -1
        self.after_end = 0

    def on_read(self, sock):
        if self.pos < 0:
            self.pos = 0
            return self.head
        if self.pos >= len(self.body):
            self.after_end += 1
            return b""
        piece = self.body[self.pos:self.pos + self.seg]
        self.pos += len(piece)
        return piece


def _fail(msg):
    from kit import h
    h.INFO["why"] = msg
    return False


def open_response(fx, seg, dc, preload=False, body=None):
    """Request + status line + header block: everything up to the first body byte depends on no symbolic value
    (seg and dc are realised first), so it runs outside the tracer (same real code, same objects) unless the body
    is preloaded, which reads it inside getresponse()."""
    peer = BodyPeer(fx.head, fx.body if body is None else body, seg)
    netw = N.install(peer)
    conn = HTTPConnection("h", 80)

    def go():
        conn.request("GET", "/", preload_content=preload, decode_content=dc)
        return conn.getresponse()
    resp = go()
    if not preload:
        _guard(resp, len(fx.body) * 3 + 60)
    return resp, conn, peer, netw


class Livelock(Exception):
    pass


def _guard(resp, limit):
    """A reader that keeps calling into the raw layer without ever reaching the end is a hang for the caller:
    count the raw reads of this response and turn a runaway loop into a failure instead of a stuck check."""
    inner = resp._raw_read
    st = {"n": 0}

    def counted(*a, **kw):
        st["n"] += 1
        if st["n"] > limit:
            raise Livelock("more than %d raw reads: the read loop does not terminate" % limit)
        return inner(*a, **kw)
    resp._raw_read = counted


def do_call(resp, kind, n, dc):
    if kind == K_READN:
        return resp.read(n, decode_content=dc)
    if kind == K_READ1N:
        return resp.read1(n, decode_content=dc)
    if kind == K_READINTO:
        # readinto has no decode_content parameter: it follows the response's own setting (same value here)
        buf = bytearray(n)
        got = resp.readinto(buf)
        return bytes(buf[:got])
    if kind == K_READ0:
        return resp.read(0, decode_content=dc)
    if kind == K_READ1:
        return resp.read1(decode_content=dc)
    return resp.read(decode_content=dc)


def finish(resp, fin, m, dc, limit):
    """Returns (pieces, err) — err describes a violation seen while finishing."""
    pieces = []
    if fin == F_READ:
        pieces.append(resp.read(decode_content=dc))
        return pieces, None
    if fin == F_DATA:
        first = resp.data            # the rest of the body, cached ...
        again = resp.data            # ... and the same bytes on every later access
        pieces.append(first)
        if again != first:
            return pieces, ".data returned %r the first time and %r the second time" % (first[:40], again[:40])
        return pieces, None
    if fin in (F_LOOP_READ, F_LOOP_READ1, F_LOOP_READINTO):
        kind = {F_LOOP_READ: K_READN, F_LOOP_READ1: K_READ1N, F_LOOP_READINTO: K_READINTO}[fin]
        for _ in range(limit):
            p = do_call(resp, kind, m, dc)
            if len(p) > m:
                return pieces, "%s returned %d > %d bytes" % (KIND_NAMES[kind], len(p), m)
            if not p:
                return pieces, None
            pieces.append(p)
        return pieces, "loop of %s(%d) did not reach the end in %d calls" % (KIND_NAMES[kind], m, limit)
    if fin == F_STREAM:
        it = resp.stream(m, decode_content=dc)
    elif fin == F_STREAM_NONE:
        it = resp.stream(None, decode_content=dc)
    elif fin == F_READ_CHUNKED:
        it = resp.read_chunked(m, decode_content=dc)
    else:
        it = iter(resp)
    count = 0
    for p in it:
        count += 1
        if count > limit:
            return pieces, "iteration did not end after %d pieces" % limit
        if not p:
            return pieces, "%s yielded an empty piece" % FIN_NAMES[fin]
        pieces.append(p)
    return pieces, None


def _script_body(dc, seg, ncalls, k1, n1, k2, n2, k3, n3, fin, m):
    fx = BY_NAME[P.fixture]
    exp = fx.expected(dc)
    calls = [(k1, n1), (k2, n2), (k3, n3)][:ncalls]
    facts = {"consumed_via_httplib": False}
    try:
        try:
            why = _run_script(fx, exp, dc, seg, calls, fin, m, facts)
        except Exception as e:
            import traceback
            why = "%s raised %r | script=%s seg=%s\n%s" % (
                facts.get("at", "?"), e, _script(calls, fin, m), seg, "".join(traceback.format_exception(e))[-1200:])
        if why is None:
            mark("fin=%d" % fin)
            if ncalls:
                mark("prefix")
            return True
        # ---- known findings: signature evaluated on observed facts (see known_findings.json) ----
        if (fx.framing == "chunked" and fin in (F_STREAM, F_READ_CHUNKED, F_ITER, F_STREAM_NONE)
                and facts["consumed_via_httplib"] and facts.get("at") == "finisher" and known("F11")):
            return True
        return _fail(why)
    finally:
        N.uninstall()


def _run_script(fx, exp, dc, seg, calls, fin, m, facts):
    facts["at"] = "open"
    resp, conn, peer, netw = open_response(fx, seg, dc)
    got = b""
    shorts = []          # positions at which a bounded read came back short (must be the end)
    for i, (k, n) in enumerate(calls):
        facts["at"] = "prefix call %d %s" % (i + 1, KIND_NAMES[k])
        piece = do_call(resp, k, n, dc)
        if piece is None:
            return "%s returned None" % KIND_NAMES[k]
        if k in (K_READN, K_READ1N, K_READINTO) and len(piece) > n:
            return "%s(%d) returned %d bytes" % (KIND_NAMES[k], n, len(piece))
        if k == K_READ0 and piece != b"":
            return "read(0) returned %r" % (piece,)
        if k in (K_READN, K_READINTO) and len(piece) < n:
            shorts.append(len(got) + len(piece))
        if k != K_READ0 and not resp.isclosed():
            # body bytes were taken through http.client's own (chunk) reader and the body is not finished
            facts["consumed_via_httplib"] = True
        got += piece
    facts["at"] = "finisher"
    pieces, err = finish(resp, fin, m, dc, len(exp) + len(fx.body) + 8)
    if err:
        return err + " | script=%s" % _script(calls, fin, m)
    for p in pieces:
        if fin in (F_LOOP_READ, F_LOOP_READINTO) and len(p) < m:
            shorts.append(len(got) + len(p))
        got += p
    if got != exp:
        return "pieces %r != expected %r | script=%s seg=%d" % (got, exp, _script(calls, fin, m), seg)
    for s in shorts:
        if s != len(exp):
            return "bounded read came back short at offset %d of %d | script=%s" % (s, len(exp), _script(calls, fin, m))
    facts["at"] = "after end"
    for k in (K_READALL, K_READN, K_READ1N, K_READ1):
        p = do_call(resp, k, 3, dc)
        if p != b"":
            return "%s after the end returned %r | script=%s" % (KIND_NAMES[k], p, _script(calls, fin, m))
    return None


def _script(calls, fin, m):
    try:
        from crosshair.core import deep_realize
    except Exception:
        deep_realize = lambda x: x
    try:
        return deep_realize(" ; ".join("%s[%d]" % (KIND_NAMES[k], n) for k, n in calls) + " ; " + FIN_NAMES[fin] + "[%d]" % m)
    except Exception:
        return "?"


def script_dims(part):
    """dims of one partition: decode, segmentation, up to 3 prefix calls (kind, amount), finisher (kind, amount)."""
    def calls(kinds, ns):
        return [(k, n) for k in kinds for n in (ns if k in (K_READN, K_READ1N, K_READINTO) else ns[:1])]
    dims = [part["dcs"], part["segs"]]
    n = part["ncalls"]
    first = calls(part["kinds1"], part["ns"])
    if part.get("ncalls_min", n) == 0:
        first = [None] + first
    if n >= 1:
        dims.append(first)
    if n >= 2:
        dims.append(calls(part["kinds"], part["ns2"]))
    if n >= 3:
        dims.append(calls(part["kinds"], part["ns2"]))
    dims.append([(f, m) for f in part["fins"] for m in (part["ms"] if f in (F_LOOP_READ, F_LOOP_READ1, F_LOOP_READINTO, F_STREAM, F_READ_CHUNKED)
                                                       else part["ms"][:1])])
    return dims


def _script_point(idx):
    vals = decode_point(idx, script_dims)
    dc, seg = vals[0], vals[1]
    calls = [c for c in vals[2:-1] if c is not None]
    fin, m = vals[-1]
    if fin == F_ITER and not dc:
        return True            # iteration always decodes: only meaningful with decode_content=True
    calls = (calls + [(0, 1)] * 3)[:3]
    ncalls = len([c for c in vals[2:-1] if c is not None])
    return N._untraced(_script_body)(dc, seg, ncalls, calls[0][0], calls[0][1], calls[1][0], calls[1][1], calls[2][0], calls[2][1], fin, m)


def c12_script(idx: int) -> bool:
    """
    pre: 0 <= idx < P.n
    post: _
    """
    return run(_script_point, idx)


def _preload_body(dc, seg):
    fx = BY_NAME[P.fixture]
    exp = fx.expected(dc)
    try:
        resp, conn, peer, netw = open_response(fx, seg, dc, preload=True)
        if resp.data != exp:
            return _fail("preloaded .data %r != %r" % (resp.data, exp))
        if resp.read(decode_content=dc) != b"" and exp != b"":
            # after preloading the stream is exhausted
            return _fail("read() after preload returned more data")
        mark("preload")
        return True
    finally:
        N.uninstall()


def _preload_point(idx):
    dc, seg = decode_point(idx, [[True, False], list(range(1, P.segmax + 1))])
    return N._untraced(_preload_body)(dc, seg)


def c12_preload(idx: int) -> bool:
    """
    pre: 0 <= idx < P.n
    post: _
    """
    return run(_preload_point, idx)


DIMS = {"c12_script": script_dims, "c12_preload": lambda part: [[True, False], list(range(1, part["segmax"] + 1))]}


QUICK_FIX = ["cl/identity/5", "chunked/identity/5/1-2", "close/identity/5", "cl/identity/0", "cl/gzip/17", "cl/gzip2/17",
             "cl/rawdeflate/17", "cl/zstd2/17", "cl/gzip,deflate/17", "chunked/gzip/17/5", "chunked/zstd2/17/3-11",
             "close/gzip2/17", "cl/gzip_garbage/17", "close/zstd/17"]


def JOBS(tier):
    quick = tier == "quick"
    jobs = []
    t = 170 if quick else 900
    allk = [K_READN, K_READ1N, K_READINTO, K_READ0, K_READ1, K_READALL]
    for fx in FIXTURES:
        if quick and fx.name not in QUICK_FIX:
            continue
        L = len(fx.payload)
        W = len(fx.body)
        chunked = fx.framing == "chunked"
        fins = [F_READ, F_LOOP_READ, F_LOOP_READ1, F_LOOP_READINTO, F_STREAM, F_ITER, F_STREAM_NONE, F_DATA] + ([F_READ_CHUNKED] if chunked else [])
        dcs = [True, False] if fx.coding != "identity" else [True]
        if quick:
            segs = [1, W + 1]
            ns = sorted({1, 2, max(1, L - 1), L + 1}) if L > 7 else list(range(1, L + 3))
            ms = [1, 3] if L else [1]
        else:
            segs = sorted({1, 2, 3, 7, max(1, W // 2), W + 1})
            ns = list(range(1, L + 3))
            ms = list(range(1, min(L + 1, 6) + 1)) if L else [1]
        base = {"fixture": fx.name, "segs": segs, "ns": ns, "ns2": ns, "ms": ms, "fins": fins, "dcs": dcs}
        jobs.append({"func": "c12_preload", "part": {"fixture": fx.name, "segmax": W + 1}, "timeout": t, "samples": 1})
        # 0-1 prefix call (every kind, every amount in ns) + every finisher
        jobs.append({"func": "c12_script", "timeout": t, "path_timeout": 60, "samples": 1,
                     "part": dict(base, ncalls=1, ncalls_min=0, kinds1=allk, kinds=[K_READN])})
        # two prefix calls
        if L and (not quick or fx.name in ("cl/gzip/17", "chunked/identity/5/1-2", "cl/zstd2/17", "cl/identity/5", "chunked/zstd2/17/3-11")):
            for ka in allk:
                jobs.append({"func": "c12_script", "timeout": t, "path_timeout": 60, "samples": 1,
                             "part": dict(base, ncalls=2, ncalls_min=2, kinds1=[ka], kinds=allk, segs=[1, W + 1],
                                          ns=sorted({1, 2, 3, L - 1, L, L + 1}) if not quick else sorted({1, 2, L - 1, L + 1}), ns2=sorted({1, 3, L + 1}),
                                          ms=[1, 2] if not quick else [2])})
        if not quick and 0 < L <= 5:
            for ka in allk:
                for kb in allk:
                    jobs.append({"func": "c12_script", "timeout": t, "path_timeout": 60, "samples": 1,
                                 "part": dict(base, ncalls=3, ncalls_min=3, kinds1=[ka], kinds=[kb], segs=[1, W + 1],
                                              ns=[1, 2, L + 1], ns2=[1, 3], ms=[1, 2])})
    return jobs


EVIDENCE = {
    "bounds": {"quick": "14 fixtures (payload 0/5/17 B x {identity,gzip,2-member gzip,gzip+garbage,raw deflate,zstd,2-frame zstd,gzip+deflate} x "
                        "{Content-Length, chunked with size vectors and extensions, close-delimited}): segmentation {1, whole}, 0-1 prefix "
                        "call of every kind with amounts {1,2,len-1,len+1} (all 1..len+2 for payloads <= 5 B), every finisher with m in {1,3}, "
                        "decode on/off; 2-call prefixes (all 36 kind pairs, amounts {1,2,len-1,len+1} x {1,3,len+1}) on 5 fixtures; preload for every segmentation; every point is one solver model of a single index variable (bisection), executed on the real code",
               "thorough": "amounts up to len+2 (<=19), m <= 6, all 36 kind pairs for 2-call prefixes on every fixture, 3-call prefixes on the 5-byte fixtures"},
    "outside": ["payloads > 40 bytes; effects of the 8 KiB / 64 KiB buffer sizes", "the codecs themselves (zlib, zstandard are C: concrete streams)",
                "brotli (not installed)", "decode_content changed between calls of one response (documented as unsupported: RuntimeError)"],
    "stubs": ["urllib3.util.connection.create_connection -> MemSock (segment script)", "logging disabled"],
    "assumptions": ["amounts are symbolic inside urllib3's Python code and are realised value by value where they reach C "
                    "(BufferedReader.read, bytes slicing): the solver enumerates every value in the bound"],
}
