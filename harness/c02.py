"""C02 — concurrent requests never share a connection, exceed maxsize, or deadlock; a racing close() is harmless.

c02_sched : two REAL threads run the REAL pool code in lock-step under a deterministic scheduler whose schedule is a solver
            variable.  Every access to the pool's shared state is a scheduling point: reads and writes of the `pool` attribute
            (a property on a harness subclass) and every queue operation (QueueCls extension point: get / put / qsize).  A schedule
            is (w1, x1, w2): the worker runs until its w1-th shared access, the other thread (the real close(), or a second
            request) runs x1 of its accesses, the worker runs w2 more, the other thread finishes, the worker finishes.  Blocking
            queue waits hand control to the other thread; if nobody can make progress any more the schedule is a hang.
            Asserts: every request ends with its OWN response, ClosedPoolError or another urllib3 error — never AttributeError /
            TypeError and never a hang; a block=True pool never has more than maxsize sockets open; no slot is lost while the pool
            is open; once the closed pool object is dropped no socket is left open.
"""
from __future__ import annotations

import gc
import queue
import threading

from kit.h import P, run, mark, known, decode_point, space_size
from kit import net as N
from kit import env as E

from urllib3.connectionpool import HTTPConnectionPool
from urllib3.exceptions import HTTPError, ClosedPoolError, MaxRetryError, EmptyPoolError
from urllib3.util.retry import Retry


class Hang(BaseException):
    pass


class SchedStuck(Exception):
    """The lock-step scheduler itself lost track (harness error, never a verdict)."""


class Sched:
    """Lock-step scheduler for two threads W and X: exactly one runs at a time; control changes hands only at tick() points,
    when a thread ends, or when a thread would block."""

    def __init__(self, plan):
        self.plan = list(plan)          # [(thread name, number of ticks it may still pass, None = unlimited)]
        self.seg = 0
        self.cv = threading.Condition()
        self.turn = self.plan[0][0]
        self.left = self.plan[0][1]
        self.done = set()
        self.blocked = set()
        self.active = False
        self.hang = None
        self.trace = []
        self.names = ("W", "X")

    def register(self, name):
        pass

    def _other(self, me):
        return "X" if me == "W" else "W"

    def _next_segment(self):
        """Move to the next plan segment whose thread is still alive; past the plan everybody runs freely."""
        while True:
            self.seg += 1
            if self.seg >= len(self.plan):
                alive = [n for n in self.names if n not in self.done]
                if not alive:
                    self.turn, self.left = None, None
                    return
                self.turn, self.left = alive[0], None
                return
            name, n = self.plan[self.seg]
            if name in self.done:
                continue
            self.turn, self.left = name, n
            return

    def _wait_turn(self, me):
        while self.turn != me:
            if not self.cv.wait(30.0):
                raise SchedStuck("thread %s waited 30 s for its turn (turn=%r seg=%d done=%r blocked=%r trace=%r)"
                                 % (me, self.turn, self.seg, self.done, self.blocked, self.trace[-6:]))

    def start_thread(self, me):
        with self.cv:
            self._wait_turn(me)

    def tick(self, what=""):
        if not self.active:
            return
        me = threading.current_thread().name
        if me not in self.names:
            return
        with self.cv:
            self._wait_turn(me)
            self.trace.append((me, what))
            if self.left is None:
                return
            if self.left > 0:
                self.left -= 1
                return
            self._next_segment()
            self.cv.notify_all()
            self._wait_turn(me)

    def wait_for_others(self, what):
        """A blocking wait: the other thread runs freely until it ends or blocks too.  False = nobody can unblock us (hang)."""
        me = threading.current_thread().name
        other = self._other(me)
        with self.cv:
            if other in self.done or other in self.blocked:
                return False
            self.blocked.add(me)
            saved = (self.seg, self.left)
            # the other thread gets an unlimited extra segment, then we resume where we were
            self.turn, self.left = other, None
            self.resume = (me, saved)
            self.cv.notify_all()
            self._wait_turn(me)
            self.blocked.discard(me)
            return True

    def finish(self, me):
        with self.cv:
            self.done.add(me)
            other = self._other(me)
            if other in self.done:
                self.turn = None
            elif other in self.blocked:
                # the blocked thread gets the processor back to re-examine the state we leave behind
                self.turn, self.left = other, None
            else:
                if self.turn == me:
                    self._next_segment()
                if self.turn not in self.names or self.turn in self.done:
                    self.turn, self.left = other, None
            self.cv.notify_all()


SCHED = None


class TickQueue(queue.LifoQueue):
    sched = None        # set by the harness on the queue of the pool under test; other queues (garbage of earlier runs) are inert

    def _t(self, what):
        if SCHED is not None and self.sched is SCHED:
            SCHED.tick(what)

    def get(self, block=True, timeout=None):
        self._t("q.get")
        while True:
            try:
                return queue.LifoQueue.get(self, block=False)
            except queue.Empty:
                if not block or not (SCHED is not None and self.sched is SCHED and SCHED.active):
                    raise
                if timeout is not None:
                    # a timed wait: give the others one chance, then the timeout elapses
                    if SCHED.wait_for_others("timed get"):
                        try:
                            return queue.LifoQueue.get(self, block=False)
                        except queue.Empty:
                            pass
                    raise
                if not SCHED.wait_for_others("blocking get"):
                    SCHED.hang = "blocked forever in pool.get(block=True): the queue is empty and nobody will put"
                    raise Hang()

    def put(self, item, block=True, timeout=None):
        self._t("q.put")
        return queue.LifoQueue.put(self, item, block=False)

    def qsize(self):
        self._t("q.qsize")
        return queue.LifoQueue.qsize(self)


class SchedPool(HTTPConnectionPool):
    QueueCls = TickQueue

    @property
    def pool(self):
        if SCHED is not None and self.__dict__.get("_sched") is SCHED:
            SCHED.tick("read self.pool")
        return self.__dict__.get("_p")

    @pool.setter
    def pool(self, v):
        if SCHED is not None and self.__dict__.get("_sched") is SCHED:
            SCHED.tick("write self.pool")
        self.__dict__["_p"] = v


class TagPeer(N.BaseHandler):
    chunked_late = False      # script 6: W's reply is chunked and its second chunk only arrives with the NEXT request on that socket

    def __init__(self, fail_first, status503):
        self.fail_first = fail_first
        self.status503 = status503
        self.state = {}
        self.n = 0
        self.users = {}       # sock id -> set of thread names that sent on it while a response was outstanding

    def on_send(self, sock, data):
        st = self.state.setdefault(sock.id, {"got": b"", "answered": 0, "queue": [], "eof": False, "busy": None})
        st["got"] += data
        me = threading.current_thread().name
        if st["busy"] is not None and st["busy"] != me:
            self.users.setdefault(sock.id, set()).update([me, st["busy"]])
        st["busy"] = me

    def on_read(self, sock):
        st = self.state.setdefault(sock.id, {"got": b"", "answered": 0, "queue": [], "eof": False, "busy": None})
        if st["eof"]:
            return b""
        reqs, rest = N.parse_requests(st["got"])
        if len(reqs) > st["answered"]:
            r = reqs[st["answered"]]
            st["answered"] += 1
            self.n += 1
            tag = r["target"]
            if self.fail_first and self.n == 1:
                st["eof"] = True
                raise ConnectionResetError(104, "reset")
            st["busy"] = None
            held = st.pop("held", None)
            if self.chunked_late and tag.startswith(b"/W"):
                body = b"body-of:" + tag
                st["held"] = b"%x\r\n" % (len(body) - 4) + body[4:] + b"\r\n0\r\n\r\n"
                return b"HTTP/1.1 200 OK\r\nTransfer-Encoding: chunked\r\n\r\n4\r\n" + body[:4] + b"\r\n"
            if held is not None:
                # the rest of the previous (chunked) reply was still in flight: it arrives in front of this reply
                return held + N.response_bytes(200, "OK", body=b"body-of:" + tag)
            if self.status503 and tag.startswith(b"/W"):
                return N.response_bytes(503, "X", body=b"busy:" + tag)
            return N.response_bytes(200, "OK", body=b"body-of:" + tag)
        return b""

    def readable(self, sock):
        st = self.state.get(sock.id)
        return bool(st and st["eof"])


def _fail(msg):
    from kit import h
    h.INFO["why"] = msg
    return False


def dims_of(part):
    return [list(range(part["wmax"] + 1)), list(range(part["xmax"] + 1)), list(range(part["wmax"] + 1))]


def _sched_body(idx):
    w1, x1, w2 = decode_point(idx, dims_of)
    return N._untraced(_schedule)(P.maxsize, P.block, P.script, P.other, w1, x1, w2)


def _request(pool, script, name, out):
    try:
        if script == 0:
            r = pool.urlopen("GET", "/%s" % name, retries=False, pool_timeout=None)
            out[name] = ("ok", r.status, r.data)
        elif script == 1:
            r = pool.urlopen("GET", "/%s" % name, retries=Retry(total=1, backoff_factor=0), pool_timeout=None)
            out[name] = ("ok", r.status, r.data)
        elif script == 2:
            r = pool.urlopen("GET", "/%s" % name, retries=False, preload_content=False, pool_timeout=None)
            data = r.read()
            r.release_conn()
            out[name] = ("ok", r.status, data)
        elif script == 6:
            # a chunked reply read only in part, then released while the rest is still in flight: that connection is spent
            r = pool.urlopen("GET", "/%s" % name, retries=False, preload_content=False, pool_timeout=None)
            first = r.read(4)
            r.release_conn()
            want = b"body-of:/" + name.encode()
            out[name] = ("ok", r.status, want if (first and want.startswith(first)) else first)
        elif script == 5:
            # the very first request on the wire is reset and nothing retries: this caller (whichever thread it is) gets the error
            # and leaves a None placeholder in the queue — possibly on top of a connection the other thread has just returned
            r = pool.urlopen("GET", "/%s" % name, retries=False, pool_timeout=None)
            out[name] = ("ok", r.status, r.data)
        elif script == 4:
            # the connection goes back to the pool inside urlopen (release_conn=True) although the body is still unread
            # (preload_content=False): the response must not hand the same connection back a second time
            r = pool.urlopen("GET", "/%s" % name, retries=False, preload_content=False, release_conn=True, pool_timeout=None)
            data = r.read()
            r.release_conn()
            out[name] = ("ok", r.status, data)
        else:
            try:
                r = pool.urlopen("GET", "/%s" % name, retries=Retry(total=0, status_forcelist=[503]), preload_content=False,
                                 pool_timeout=None)
                out[name] = ("ok", r.status, r.read())
            except MaxRetryError as e:
                out[name] = ("err", e)
    except HTTPError as e:
        out[name] = ("err", e)
    except Hang:
        out[name] = ("hang", None)
    except SchedStuck as e:
        out[name] = ("stuck", e)
    except BaseException as e:      # AttributeError, TypeError, ...: internal errors are what the property forbids
        out[name] = ("internal", e)


def _schedule(maxsize, block, script, other, w1, x1, w2):
    global SCHED
    peer = TagPeer(script in (1, 5), script == 3)
    peer.chunked_late = script == 6
    netw = N.install(peer)
    E.install_clock()
    plan = [("W", w1), ("X", x1), ("W", w2), ("X", None), ("W", None)]
    sched = Sched(plan)
    SCHED = sched
    out = {}
    try:
        gc.collect()      # finalizers of earlier runs' pools run now, not in the middle of this schedule
        pool = SchedPool("h", 80, maxsize=maxsize, block=block)
        pool.__dict__["_sched"] = sched
        pool.__dict__["_p"].sched = sched
        sched.register("W")
        sched.register("X")

        def other_thread():
            sched.start_thread("X")
            try:
                if other == "close":
                    try:
                        pool.close()
                        out["X"] = ("closed", None)
                    except Hang:
                        out["X"] = ("hang", None)
                    except BaseException as e:
                        out["X"] = ("internal", e)
                elif other == "request+close":
                    # a third actor folded into X: a second request, then close() — reaches the non-blocking pool's
                    # "queue full" branch of the worker with a close() racing it
                    _request(pool, 0, "X", out)
                    try:
                        pool.close()
                    except BaseException as e:
                        out["X"] = ("internal", e)
                else:
                    _request(pool, 0 if other == "request" else 2, "X", out)
            finally:
                sched.finish("X")
        tx = threading.Thread(target=other_thread, name="X", daemon=True)
        main = threading.current_thread()
        old_name = main.name
        main.name = "W"
        try:
            tx.start()
            sched.active = True
            _request(pool, script, "W", out)
            sched.finish("W")
            tx.join(10)
        finally:
            sched.active = False
            main.name = old_name
        from kit.h import Skip
        if tx.is_alive():
            raise Skip("scheduler: the other thread never finished: %r" % (sched.trace[-8:],))
        if any(o[0] == "stuck" for o in out.values()):
            raise Skip("scheduler lost track: %r" % ([o[1] for o in out.values() if o[0] == "stuck"][:1],))
        # ---- outcomes ----
        for name in ("W", "X"):
            o = out.get(name)
            if o is None:
                return _fail("thread %s produced no outcome" % name)
            if o[0] == "hang":
                # known finding F24: a request that is (about to be) blocked in pool.get(block=True) on the queue that a
                # racing close() has just swapped out and drained is never woken up
                # (signature: close() swapped the queue out BEFORE it drained it — the designed order — and W had fetched the
                # old queue object before the swap)
                tr = sched.trace
                wr = [i for i, t in enumerate(tr) if t == ("X", "write self.pool")]
                xg = [i for i, t in enumerate(tr) if t == ("X", "q.get")]
                puts = [i for i, t in enumerate(tr) if t == ("X", "q.put") and wr and i < wr[0]]
                last_put = max(puts) if puts else -1
                drained_early = bool(wr) and any(last_put < i < wr[0] for i in xg)     # close() emptied the queue before the swap
                swapped_first = bool(wr) and not drained_early
                if other in ("close", "request+close") and block and name == "W" and swapped_first and known("F24"):
                    continue
                return _fail("schedule (%d,%d,%d): thread %s hangs: %s | trace %r" % (w1, x1, w2, name, sched.hang, sched.trace[-8:]))
            if o[0] == "internal":
                import traceback
                return _fail("schedule (%d,%d,%d): thread %s raised an internal error %r\n%s" % (
                    w1, x1, w2, name, o[1], "".join(traceback.format_exception(o[1]))[-900:]))
            if o[0] == "ok":
                status, data = o[1], o[2]
                want = (b"busy:/" if (script == 3 and name == "W") else b"body-of:/") + name.encode()
                if data != want:
                    return _fail("thread %s received %r, its own response is %r" % (name, data, want))
            if o[0] == "err":
                e = o[1]
                if other not in ("close", "request+close") and isinstance(e, ClosedPoolError):
                    return _fail("ClosedPoolError without a close()")
                early_release = script == 4 and isinstance(e, HTTPError) and "ResponseNotReady" in repr(e)
                # (script 4 puts a connection with an unread response back: another thread that picks it up is refused by
                #  http.client's ResponseNotReady guard — the documented price of release_conn=True without preloading)
                if other not in ("close", "request+close") and not (script in (1, 3, 5) or isinstance(e, EmptyPoolError) or early_release):
                    return _fail("thread %s failed with %r although nothing went wrong" % (name, e))
        if peer.users:
            return _fail("one connection carried two threads' requests at the same time: %r" % (peer.users,))
        if block and netw.max_open > maxsize:
            return _fail("block=True pool had %d sockets open at once (maxsize %d)" % (netw.max_open, maxsize))
        # ---- slots / sockets ----
        if other not in ("close", "request+close"):
            q = pool.__dict__.get("_p")
            n = queue.LifoQueue.qsize(q)
            if block and n != maxsize:
                return _fail("schedule (%d,%d,%d): %d of %d slots left in the pool after both requests ended" % (w1, x1, w2, n, maxsize))
            if not block and n > maxsize:
                return _fail("more than maxsize entries in the queue")
            conns = [c for c in list(q.queue) if c is not None]
            if len(set(id(c) for c in conns)) != len(conns):
                return _fail("schedule (%d,%d,%d): the same connection object is in the pool twice" % (w1, x1, w2))
            # a pool that is simply dropped (no close()) gives its sockets back through its finalizer, whatever mixture of live
            # connections and None placeholders the two requests left in the queue
            arrangement = ["live" if c is not None else "None" for c in list(q.queue)]
            out.clear()
            o = e = q = conns = None
            del pool
            gc.collect()
            if netw.open_now != 0:
                return _fail("schedule (%d,%d,%d): %d socket(s) still open after the pool was dropped (queue bottom->top %r)"
                             % (w1, x1, w2, netw.open_now, arrangement))
            mark("both served")
        else:
            if out["W"][0] == "hang":
                mark("closed: W hang (F24)")
                return True       # (only reached when the F24 signature matched above)
            w_kind = out["W"][0]
            out.clear()          # exception objects (tracebacks, chained causes) would keep response objects and their sockets alive
            o = None
            e = None
            out["W"] = (w_kind, None)
            del pool
            gc.collect()
            if netw.open_now != 0:
                return _fail("schedule (%d,%d,%d): %d socket(s) still open after the closed pool was dropped (outcome W=%s)"
                             % (w1, x1, w2, netw.open_now, out["W"][0]))
            mark("closed: W %s" % out["W"][0])
        return True
    finally:
        SCHED = None
        N.uninstall()
        E.uninstall_clock()


def c02_sched(idx: int) -> bool:
    """
    pre: 0 <= idx < P.n
    post: _
    """
    return run(_sched_body, idx)


DIMS = {"c02_sched": dims_of}


def JOBS(tier):
    quick = tier == "quick"
    t = 170 if quick else 900
    jobs = []
    for maxsize in (1, 2):
        for block in (True, False):
            for script in (0, 1, 2, 3, 5, 6):
                for other in ("close", "request", "stream", "request+close"):
                    if quick and other == "stream" and script not in (0, 2):
                        continue
                    if script == 4 and other != "request":
                        continue
                    if script == 5 and (other != "request" or maxsize != 2):
                        continue
                    if script == 6 and other != "request":
                        continue      # (a pooled connection whose response is still being read + close(): the caller gave it away)
                    if other == "request+close" and (script not in (0, 2) or (quick and maxsize == 2)):
                        continue
                    rc = other == "request+close"
                    part = {"maxsize": maxsize, "block": block, "script": script, "other": other,
                            "wmax": (8 if rc else 11) if quick else 30, "xmax": (7 if quick else 14) + (9 if rc else 0)}
                    part["n"] = space_size(dims_of(part))
                    jobs.append({"func": "c02_sched", "timeout": t, "path_timeout": 60, "samples": 1, "part": part})
    return jobs


EVIDENCE = {
    "bounds": {"quick": "2 threads (request W + either close() or a second request X) x maxsize {1,2} x block {T,F} x W script {plain, failing "
                        "attempt then retry, streaming + release, 503 with exhausted budget} x every schedule (w1 <= 11, x1 <= 7, w2 <= 11) "
                        "of shared-state accesses: W runs w1 accesses, X runs x1, W runs w2, X finishes, W finishes (two preemptions of W, one of X)",
               "thorough": "w1, w2 <= 30, x1 <= 14 (covers every access of the longest script)"},
    "outside": ["release_conn=True together with preload_content=False under concurrency (script 4 of the harness, not scheduled): the "
                "caller gives the connection away before reading, so on the unchanged tree another thread's failed attempt or "
                "close() ends that read early — the pool-state side of it (no connection queued twice) is decided in C01",
                "three or more running threads; more than two preemptions of the worker", "pre-emption inside queue.LifoQueue's own methods (the "
                "standard library's lock protects them)", "pre-emption between byte-codes that do not touch pool.pool or the queue (they "
                "commute with the other thread's steps)"],
    "stubs": ["QueueCls -> TickQueue (same LifoQueue, scheduling point before each operation; blocking waits become hand-overs)",
              "pool attribute -> property with a scheduling point", "create_connection -> MemSock", "clock constant", "logging disabled"],
    "assumptions": ["schedules are solver-enumerated (one model per path) and executed by real threads in lock-step outside the tracer",
                    "a blocking get() with nobody left to put is reported as a hang (liveness approximated by quiescence)"],
}
