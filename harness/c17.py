"""C17 — the pool cache is bounded, consistent, and never leaks an evicted pool.

c17_lru_step : inductive step on RecentlyUsedContainer — ONE operation from an arbitrary valid state (maxsize 0..3,
               ordered selection of <= maxsize distinct keys of a 4-key pool, symbolic), followed by a probe suffix of
               fresh inserts that makes the recency order observable through the eviction order.  Asserts contents,
               order, KeyError behaviour, dispose exactly-once/in-order/outside-the-lock, and (monitor) that every
               access to the underlying dict happens with the lock owned.
c17_manager  : PoolManager(num_pools=n) over the in-memory net: <= 4 requests to origins chosen by symbolic index,
               clear() at a symbolic position, streaming responses kept across eviction.
"""
from __future__ import annotations

import gc
from collections import OrderedDict

from kit.h import P, run, mark, known, space_size
from urllib3._collections import RecentlyUsedContainer

KEYS = ["k0", "k1", "k2", "k3"]
OPS = ["set", "get", "del", "clear", "len", "keys", "contains", "iter", "get_default", "pop", "setdefault", "update"]


def _fail(msg):
    from kit import h
    h.INFO["why"] = msg
    return False


class Monitored(OrderedDict):
    """The container's dict, recording whether the lock is owned at every access."""
    owner = None
    violations = 0

    def _chk(self):
        if self.owner is not None and not self.owner.lock._is_owned():
            Monitored.violations += 1

    def pop(self, *a):
        self._chk()
        return OrderedDict.pop(self, *a)

    def __setitem__(self, k, v):
        self._chk()
        OrderedDict.__setitem__(self, k, v)

    def popitem(self, last=True):
        self._chk()
        return OrderedDict.popitem(self, last)

    def __len__(self):
        self._chk()
        return OrderedDict.__len__(self)

    def values(self):
        self._chk()
        return OrderedDict.values(self)

    def keys(self):
        self._chk()
        return OrderedDict.keys(self)

    def clear(self):
        self._chk()
        OrderedDict.clear(self)


def _lru_body(maxsize, n, i0, i1, i2, ki):
    op = OPS[P.op]
    disposed = []
    lock_held_in_dispose = []
    box = {}

    def dispose(v):
        disposed.append(v)
        lock_held_in_dispose.append(box["c"].lock._is_owned())

    nodispose = bool(P.get("nodispose", False))
    c = RecentlyUsedContainer(maxsize, dispose_func=None if nodispose else dispose)
    box["c"] = c
    mon = Monitored()
    c._container = mon
    Monitored.violations = 0
    idx = [i0, i1, i2][:n]
    ref = []                       # [(key, value)], least recently used first
    val = 100
    for i in idx:
        c[KEYS[i]] = val
        ref.append((KEYS[i], val))
        val += 1
    if disposed:
        return _fail("harness: building a state with n <= maxsize evicted something")
    mon.owner = c
    key = KEYS[ki]
    present = [k for k, _ in ref]
    exp_disposed = []
    if op == "set":
        c[key] = 999
        if key in present:
            j = present.index(key)
            exp_disposed.append(ref[j][1])
            del ref[j]
            ref.append((key, 999))
        else:
            ref.append((key, 999))
            if len(ref) > maxsize:
                exp_disposed.append(ref.pop(0)[1])
    elif op in ("get", "get_default"):
        try:
            r = c[key] if op == "get" else c.get(key, -1)
            if key not in present:
                if op == "get":
                    return _fail("get of absent key returned %r" % (r,))
                if r != -1:
                    return _fail("get(default) of absent key")
            else:
                j = present.index(key)
                if r != ref[j][1]:
                    return _fail("get returned wrong value")
                ref.append(ref.pop(j))
        except KeyError:
            if key in present or op == "get_default":
                return _fail("KeyError for present key / get(default)")
    elif op in ("del", "pop"):
        try:
            if op == "del":
                del c[key]
            else:
                r = c.pop(key)
                if key in present and r != ref[present.index(key)][1]:
                    return _fail("pop value")
            if key not in present:
                return _fail("delete of absent key did not raise")
            j = present.index(key)
            exp_disposed.append(ref[j][1])
            del ref[j]
        except KeyError:
            if key in present:
                return _fail("KeyError deleting a present key")
    elif op == "clear":
        c.clear()
        exp_disposed.extend(v for _, v in ref)
        ref = []
    elif op == "len":
        if len(c) != len(ref):
            return _fail("len")
    elif op == "keys":
        if c.keys() != set(present):
            return _fail("keys()")
    elif op == "contains":
        if (key in c) != (key in present):
            return _fail("membership")
        if key in present:
            # Mapping.__contains__ is built on __getitem__: it counts as a get
            ref.append(ref.pop(present.index(key)))
    elif op == "iter":
        try:
            iter(c)
            return _fail("iteration did not raise NotImplementedError")
        except NotImplementedError:
            pass
    elif op == "setdefault":
        r = c.setdefault(key, 999)
        if key in present:
            j = present.index(key)
            if r != ref[j][1]:
                return _fail("setdefault value")
            ref.append(ref.pop(j))
        else:
            ref.append((key, 999))
            if len(ref) > maxsize:
                exp_disposed.append(ref.pop(0)[1])
    elif op == "update":
        c.update({key: 999})
        if key in present:
            j = present.index(key)
            exp_disposed.append(ref[j][1])
            del ref[j]
            ref.append((key, 999))
        else:
            ref.append((key, 999))
            if len(ref) > maxsize:
                exp_disposed.append(ref.pop(0)[1])
    if len(c) > maxsize:
        return _fail("len %d > maxsize" % len(c))
    if nodispose:
        exp_disposed = []
    if disposed != exp_disposed:
        return _fail("dispose calls %r, expected %r" % (disposed, exp_disposed))
    if c.keys() != set(k for k, _ in ref):
        return _fail("contents %r, expected %r" % (c.keys(), ref))
    # probe suffix: maxsize fresh inserts evict the survivors in recency order
    for j in range(maxsize):
        c["fresh%d" % j] = 1000 + j
    if not nodispose and disposed != exp_disposed + [v for _, v in ref]:
        return _fail("eviction order %r, expected %r" % (disposed[len(exp_disposed):], [v for _, v in ref]))
    if any(lock_held_in_dispose):
        return _fail("dispose callback invoked while the container lock is held")
    if Monitored.violations:
        return _fail("%d accesses to the underlying dict without the lock" % Monitored.violations)
    mark(op)
    return True


def c17_lru_step(maxsize: int, n: int, i0: int, i1: int, i2: int, ki: int) -> bool:
    """
    pre: 0 <= maxsize <= 3 and 0 <= n <= maxsize
    pre: 0 <= i0 <= 3 and 0 <= i1 <= 3 and 0 <= i2 <= 3 and 0 <= ki <= 3
    pre: n < 2 or i0 != i1
    pre: n < 3 or (i0 != i2 and i1 != i2)
    pre: n >= 1 or i0 == 0
    pre: n >= 2 or i1 == 0
    pre: n >= 3 or i2 == 0
    post: _
    """
    return run(_lru_body, maxsize, n, i0, i1, i2, ki)


SEQ = ["set", "get", "del", "clear"]


def _seq_body(maxsize, o1, k1, o2, k2, o3, k3):
    disposed = []
    c = RecentlyUsedContainer(maxsize, dispose_func=disposed.append)
    ref = []
    exp = []
    val = 0
    for (o, k) in [(o1, k1), (o2, k2), (o3, k3)][:P.length]:
        key = KEYS[k]
        op = SEQ[o]
        present = [x for x, _ in ref]
        val += 1
        if op == "set":
            c[key] = val
            if key in present:
                exp.append(ref.pop(present.index(key))[1])
            ref.append((key, val))
            if len(ref) > maxsize:
                exp.append(ref.pop(0)[1])
        elif op == "get":
            try:
                r = c[key]
                if key not in present:
                    return _fail("get absent")
                j = present.index(key)
                if r != ref[j][1]:
                    return _fail("get value")
                ref.append(ref.pop(j))
            except KeyError:
                if key in present:
                    return _fail("KeyError present")
        elif op == "del":
            try:
                del c[key]
                if key not in present:
                    return _fail("del absent")
                exp.append(ref.pop(present.index(key))[1])
            except KeyError:
                if key in present:
                    return _fail("KeyError present")
        else:
            c.clear()
            exp.extend(v for _, v in ref)
            ref = []
        if len(c) > maxsize or len(c) != len(ref):
            return _fail("len")
    for j in range(maxsize):
        c["fresh%d" % j] = 1000 + j
    if disposed != exp + [v for _, v in ref]:
        return _fail("dispose sequence %r expected %r" % (disposed, exp + [v for _, v in ref]))
    return True


def c17_lru_seq(maxsize: int, o1: int, k1: int, o2: int, k2: int, o3: int, k3: int) -> bool:
    """
    pre: 0 <= maxsize <= 3
    pre: o1 == P.o1 and 0 <= o2 <= 3 and 0 <= o3 <= 3
    pre: 0 <= k1 <= 3 and 0 <= k2 <= 3 and 0 <= k3 <= 3
    post: _
    """
    return run(_seq_body, maxsize, o1, k1, o2, k2, o3, k3)


# ---- PoolManager layer -------------------------------------------------------------------------------------

from kit import net as N
from kit import env as E
import urllib3
from urllib3 import PoolManager

ORIGINS = ["http://a/", "http://b/", "http://c:81/", "http://a:8080/"]


class OkPeer(N.BaseHandler):
    """Answers every request with 200 + 10-byte body in two segments (so streaming responses stay open)."""

    def __init__(self):
        self.state = {}

    def on_read(self, sock):
        reqs, _ = N.parse_requests(sock.tx)
        done = self.state.get(sock.id, (0, 0))
        answered, seg = done
        if answered >= len(reqs):
            return b""
        if seg == 0:
            self.state[sock.id] = (answered, 1)
            return b"HTTP/1.1 200 OK\r\nContent-Length: 10\r\n\r\n01234"
        self.state[sock.id] = (answered + 1, 0)
        return b"56789"


class MonPM(PoolManager):
    """Lock-discipline monitor of the get-or-create: the pool for a missing key must be built AND stored inside the same
    critical section as the lookup (container lock owned by the caller) — that is what makes two racing requests with equal
    parameters obtain the same pool object."""
    unlocked = None

    def _new_pool(self, *a, **kw):
        if not self.pools.lock._is_owned():
            self.unlocked.append("_new_pool called without the container lock")
        return super()._new_pool(*a, **kw)


class MonContainer(RecentlyUsedContainer):
    unlocked = None

    def __setitem__(self, k, v):
        if not self.lock._is_owned():       # before our own acquire: only the caller's ownership counts
            self.unlocked.append("pool stored in the cache outside the lookup's critical section")
        RecentlyUsedContainer.__setitem__(self, k, v)


def _manager_body(num_pools, o1, o2, o3, o4, s1, s2, clear_at, lookup_only):
    peer = OkPeer()
    netw = N.install(peer)
    E.install_clock()
    try:
        pm = MonPM(num_pools=num_pools)
        unlocked = []
        pm.unlocked = unlocked
        pm.pools.__class__ = MonContainer
        pm.pools.unlocked = unlocked
        ref = []           # LRU list of origin indices
        pools = {}         # origin idx -> pool object while cached
        streaming = []     # (response, origin idx, pool)
        all_pools = []
        seq = [(o1, s1), (o2, s2), (o3, False), (o4, False)][:P.length]
        for step, (o, stream) in enumerate(seq):
            if clear_at == step:
                pm.clear()
                mark("clear")
                ref = []
                pools = {}
            url = ORIGINS[o]
            if lookup_only:
                pool = pm.connection_from_url(url)
                resp = None
            else:
                resp = pm.request("GET", url, preload_content=not stream, retries=False)
                pool = resp._pool
                if pool is not pm.connection_from_url(url):
                    return _fail("request served by a pool other than the cached one")
            if o in ref:
                if pools[o] is not pool:
                    return _fail("same key, different pool object while cached")
                ref.remove(o)
            else:
                all_pools.append((o, pool))
            ref.append(o)
            pools[o] = pool
            while len(ref) > num_pools:
                ev = ref.pop(0)
                mark("evicted")
                del pools[ev]
            if len(pm.pools) > num_pools:
                return _fail("more than num_pools pools cached")
            if len(pm.pools) != len(ref):
                return _fail("cache holds %d pools, expected %d" % (len(pm.pools), len(ref)))
            if resp is not None:
                if stream:
                    streaming.append((resp, o, pool))
                elif resp.data != b"0123456789":
                    return _fail("body")
            # a cached pool is never closed behind the caller's back
            for oo in ref:
                if pools[oo].pool is None:
                    return _fail("cached pool was closed")
        # in-flight responses of evicted/cleared pools still read correctly
        for resp, o, pool in streaming:
            try:
                data = resp.read()
            except Exception as e:
                return _fail("in-flight response of an evicted pool failed: %r" % (e,))
            if data != b"0123456789":
                return _fail("in-flight response body %r" % (data,))
            resp.release_conn()
            mark("in-flight finished")
        # once nothing uses an evicted pool any more, its sockets are closed
        cached = [pools[o] for o in ref]
        resp = pool = None
        streaming = []
        evicted_ids = []
        for o, p in all_pools:
            if not any(p is c for c in cached):
                evicted_ids.append(id(p))
        p = None
        del all_pools
        gc.collect()
        cached_addrs = [(c.host, c.port) for c in cached]
        for s in netw.socks:
            if not s.closed and (s.address[0], s.address[1]) not in cached_addrs:
                return _fail("socket to %r still open although its pool was evicted and dropped" % (s.address,))
        for c in cached:
            if c.pool is None:
                return _fail("cached pool closed")
        if unlocked:
            return _fail("get-or-create is not atomic: %s" % unlocked[0])
        return True
    finally:
        N.uninstall()
        E.uninstall_clock()


def c17_manager(num_pools: int, o1: int, o2: int, o3: int, o4: int, s1: bool, s2: bool, clear_at: int,
                lookup_only: bool) -> bool:
    """
    pre: 1 <= num_pools <= 3
    pre: o1 == P.o1 and 0 <= o2 <= 3 and 0 <= o3 <= 3 and 0 <= o4 <= 3
    pre: -1 <= clear_at < P.length
    pre: lookup_only == P.lookup
    pre: not lookup_only or (not s1 and not s2)
    post: _
    """
    return run(_manager_body, num_pools, o1, o2, o3, o4, s1, s2, clear_at, lookup_only)


# ---- two racing threads on one PoolManager ---------------------------------------------------------------------
#
# c17_race : two REAL threads use one PoolManager in lock-step; the schedule (pre-state, w1, x1) is a solver variable and w2 is
#            swept inside the path.  Scheduling points: every acquire/release of the container's lock (replaced by a lock the
#            scheduler understands: waiting for it hands control to the owner, releasing it hands control back) and every access
#            to the container's underlying dict.  Asserts LINEARIZABILITY of the manager's get-or-create / clear against a
#            reference LRU over pool identities: some sequential order of the operations explains which pool object every caller
#            obtained, which pools were disposed (each exactly once), and the final cache content and recency order; plus: at
#            most num_pools cached, cached pools open, disposed pools closed, no hang, nothing but urllib3 errors.

import threading
from harness.c02 import Sched, Hang, SchedStuck

RSCHED = None


class RaceSched(Sched):
    resume = None

    def hand_back(self):
        """Called by the thread that just released the lock another thread waits for: the waiter resumes where it was."""
        me = threading.current_thread().name
        other = self._other(me)
        with self.cv:
            if other in self.blocked and self.resume and self.resume[0] == other:
                _, (seg, left) = self.resume
                self.resume = None
                self.seg, self.left = seg, left
                self.turn = other
                self.cv.notify_all()
                self._wait_turn(me)


class SchedLock:
    """Re-entrant lock whose contention the lock-step scheduler understands."""

    def __init__(self, sched):
        self.sched = sched
        self.owner = None
        self.count = 0
        self.waiters = 0

    def _live(self):
        return RSCHED is not None and self.sched is RSCHED and RSCHED.active and threading.current_thread().name in ("W", "X")

    def acquire(self, blocking=True, timeout=-1):
        me = threading.current_thread().name
        if self._live():
            RSCHED.tick("lock.acquire")
            while self.owner not in (None, me):
                self.waiters += 1
                ok = RSCHED.wait_for_others("lock")
                self.waiters -= 1
                if not ok:
                    RSCHED.hang = "deadlock: waiting for the container lock that nobody will release"
                    raise Hang()
        self.owner = me
        self.count += 1
        return True

    def release(self):
        self.count -= 1
        if self.count == 0:
            self.owner = None
            if self._live():
                if self.waiters:
                    RSCHED.hand_back()
                RSCHED.tick("lock.release")

    def __enter__(self):
        self.acquire()
        return self

    def __exit__(self, *a):
        self.release()

    def _is_owned(self):
        return self.owner == threading.current_thread().name and self.count > 0


class TickDict(OrderedDict):
    sched = None

    def _t(self, what):
        if RSCHED is not None and self.sched is RSCHED:
            RSCHED.tick(what)

    def pop(self, *a):
        self._t("d.pop")
        return OrderedDict.pop(self, *a)

    def __setitem__(self, k, v):
        self._t("d.set")
        OrderedDict.__setitem__(self, k, v)

    def popitem(self, last=True):
        self._t("d.popitem")
        return OrderedDict.popitem(self, last)

    def __len__(self):
        self._t("d.len")
        return OrderedDict.__len__(self)

    def values(self):
        self._t("d.values")
        return OrderedDict.values(self)

    def keys(self):
        self._t("d.keys")
        return OrderedDict.keys(self)

    def clear(self):
        self._t("d.clear")
        OrderedDict.clear(self)

    def get(self, *a):
        self._t("d.get")
        return OrderedDict.get(self, *a)

    def __getitem__(self, k):
        self._t("d.getitem")
        return OrderedDict.__getitem__(self, k)

    def __contains__(self, k):
        self._t("d.contains")
        return OrderedDict.__contains__(self, k)


class RacePM(PoolManager):
    log = None

    def connection_from_pool_key(self, pool_key, request_context):
        p = super().connection_from_pool_key(pool_key, request_context)
        name = threading.current_thread().name
        if self.log is not None and name in ("W", "X"):
            self.log.append((name, p))
        return p


RORIG = {"a": "http://a/", "b": "http://b/", "c": "http://c:81/", "A": "HTTP://A:80/"}     # "A": another spelling of origin a
CANON = {"A": "a"}
W_OPS = [("lookup", "a"), ("request", "a")]
X_OPS = [[("lookup", "a")], [("lookup", "b")], [("clear", None)], [("lookup", "b"), ("lookup", "c")], [("request", "a")],
         [("lookup", "b"), ("clear", None)], [("lookup", "A")], [("request", "A")]]
PRE = [(), ("a",), ("b",), ("b", "a"), ("a", "b")]


def race_dims(part):
    return [list(part["pre"]), list(range(part["wmax"] + 1)), list(range(part["xmax"] + 1))]


def _ref_run(num_pools, pre, order):
    """Reference LRU over pool identities.  order = [(opid, kind, key)].  Returns (results, disposed, final)."""
    cache = []                          # [(key, label)], least recently used first
    disposed = []
    for k in pre:
        cache = [c for c in cache if c[0] != k]
        cache.append((k, "pre:" + k))
        while len(cache) > num_pools:
            cache.pop(0)                # (evictions while building the pre-state are not part of the schedule)
    results = {}
    for opid, kind, key in order:
        key = CANON.get(key, key)
        if kind == "clear":
            disposed.extend(lbl for _, lbl in cache)
            cache = []
            continue
        hit = [c for c in cache if c[0] == key]
        if hit:
            cache.remove(hit[0])
            cache.append(hit[0])
            results[opid] = hit[0][1]
        else:
            lbl = "new:" + opid
            cache.append((key, lbl))
            results[opid] = lbl
            while len(cache) > num_pools:
                disposed.append(cache.pop(0)[1])
    return results, sorted(disposed), cache


def _interleavings(w, x):
    if not w:
        yield list(x)
        return
    if not x:
        yield list(w)
        return
    for rest in _interleavings(w[1:], x):
        yield [w[0]] + rest
    for rest in _interleavings(w, x[1:]):
        yield [x[0]] + rest


def _race_once(num_pools, wop, xops, pre, w1, x1, w2):
    global RSCHED
    from kit.h import Skip
    from urllib3.exceptions import HTTPError
    peer = OkPeer()
    netw = N.install(peer)
    E.install_clock()
    sched = RaceSched([("W", w1), ("X", x1), ("W", w2), ("X", None), ("W", None)])
    out = {}
    try:
        pm = RacePM(num_pools=num_pools)
        disposed_objs = []         # pools that left the cache (the manager installs no dispose callback: observed by difference)
        evict_log = []
        pre_pools = {}
        for k in pre:
            pre_pools[k] = pm.connection_from_url(RORIG[k])
        pre_alive = {}
        for k, p in pre_pools.items():
            if any(p is c for c in OrderedDict.values(pm.pools._container)):
                pre_alive[k] = p
        # arm the scheduler
        d = TickDict()
        for k, v in pm.pools._container.items():
            OrderedDict.__setitem__(d, k, v)
        d.sched = sched
        pm.pools._container = d
        pm.pools.lock = SchedLock(sched)
        pm.log = []
        RSCHED = sched

        def do(ops, name):
            res = []
            try:
                for kind, key in ops:
                    if kind == "lookup":
                        pm.connection_from_url(RORIG[key])
                        res.append(("ok", None))
                    elif kind == "clear":
                        pm.clear()
                        res.append(("ok", None))
                    else:
                        try:
                            r = pm.request("GET", RORIG[key], retries=False)
                            res.append(("ok", (r.status, r.data)))
                        except HTTPError as e:
                            res.append(("err", e))
                out[name] = ("done", res)
            except Hang:
                out[name] = ("hang", None)
            except SchedStuck as e:
                out[name] = ("stuck", e)
            except BaseException as e:
                out[name] = ("internal", e)

        def other_thread():
            sched.start_thread("X")
            try:
                do(xops, "X")
            finally:
                sched.finish("X")
        tx = threading.Thread(target=other_thread, name="X", daemon=True)
        main = threading.current_thread()
        old_name = main.name
        main.name = "W"
        try:
            tx.start()
            sched.active = True
            do([wop], "W")
            sched.finish("W")
            tx.join(10)
        finally:
            sched.active = False
            main.name = old_name
            RSCHED = None
        if tx.is_alive():
            raise Skip("scheduler: the other thread never finished: %r" % (sched.trace[-8:],))
        if any(o[0] == "stuck" for o in out.values()):
            raise Skip("scheduler lost track: %r" % ([o[1] for o in out.values() if o[0] == "stuck"][:1],))
        where = "num_pools=%d pre=%r W=%r X=%r schedule (%d,%d,%d)" % (num_pools, pre, wop, xops, w1, x1, w2)
        for name in ("W", "X"):
            o = out.get(name)
            if o is None:
                return _fail("%s: thread %s produced no outcome" % (where, name))
            if o[0] == "hang":
                return _fail("%s: thread %s hangs: %s | trace %r" % (where, name, sched.hang, sched.trace[-8:]))
            if o[0] == "internal":
                import traceback
                return _fail("%s: thread %s raised %r\n%s" % (where, name, o[1], "".join(traceback.format_exception(o[1]))[-700:]))
            for kind, v in o[1]:
                if kind == "ok" and v is not None and v != (200, b"0123456789"):
                    return _fail("%s: thread %s got response %r" % (where, name, v))
        # ---- observed facts ----
        got = {"W": [p for n, p in pm.log if n == "W"], "X": [p for n, p in pm.log if n == "X"]}
        wl = [("W0", "lookup", wop[1])]
        xl = []
        for i, (kind, key) in enumerate(xops):
            xl.append(("X%d" % i, "clear" if kind == "clear" else "lookup", key))
        obs_pool = {}
        gi = {"W": 0, "X": 0}
        for opid, kind, key in wl + xl:
            if kind == "lookup":
                t = opid[0]
                if gi[t] >= len(got[t]):
                    return _fail("%s: operation %s obtained no pool" % (where, opid))
                obs_pool[opid] = got[t][gi[t]]
                gi[t] += 1
        raw = pm.pools._container
        final_obs = [(k, v) for k, v in OrderedDict.items(raw)]
        if len(final_obs) > num_pools:
            return _fail("%s: %d pools cached, num_pools=%d" % (where, len(final_obs), num_pools))
        for cand in list(pre_alive.values()) + list(obs_pool.values()):
            if not any(cand is c for _, c in final_obs) and not any(cand is q for q in disposed_objs):
                disposed_objs.append(cand)
        for _, p in final_obs:
            if p.pool is None:
                return _fail("%s: a pool that is still cached was closed" % where)
        explained = False
        why = ""
        for order in _interleavings(wl, xl):
            exp_res, exp_disp, exp_final = _ref_run(num_pools, pre, order)

            def label(obj):
                for k, p in pre_alive.items():
                    if p is obj:
                        return "pre:" + k
                for opid, _, _ in order:
                    if opid in obs_pool and obs_pool[opid] is obj:
                        return "new:" + opid
                return "unknown"
            ok = all(label(obs_pool[opid]) == exp_res[opid] for opid in exp_res)
            if ok and sorted(label(p) for p in disposed_objs) != exp_disp:
                ok = False
                why = "disposed %r expected %r" % (sorted(label(p) for p in disposed_objs), exp_disp)
            if ok and [(p.host, label(p)) for _, p in final_obs] != [(RORIG[k].split("/")[2].split(":")[0], lbl) for k, lbl in exp_final]:
                ok = False
                why = "final cache %r expected %r" % ([(p.host, label(p)) for _, p in final_obs], exp_final)
            if ok:
                explained = True
                break
        if not explained:
            return _fail("%s: no sequential order of the operations explains the outcome (pools obtained: %r; %s) | trace %r" % (
                where, {k: id(v) % 10007 for k, v in obs_pool.items()}, why, sched.trace[-14:]))
        # ---- sockets of disposed pools are closed once nothing uses them ----
        cached_addrs = [(p.host, p.port) for _, p in final_obs]
        out.clear()
        obs_pool = got = pre_pools = pre_alive = None
        p = q = o = v = label = final_obs = raw = d = cand = c = None
        pm.log = None
        del disposed_objs[:]
        leaked = [s for s in netw.socks if not s.closed and (s.address[0], s.address[1]) not in cached_addrs]
        if leaked:
            gc.collect()
            leaked = [s for s in netw.socks if not s.closed and (s.address[0], s.address[1]) not in cached_addrs]
        if leaked:
            return _fail("%s: socket to %r still open although its pool was evicted and dropped" % (where, leaked[0].address,))
        return True
    finally:
        RSCHED = None
        N.uninstall()
        E.uninstall_clock()


def _race_all(num_pools, wi, xi, pi, w1, x1):
    for w2 in range(P.wmax + 1):
        if not _race_once(num_pools, W_OPS[wi], X_OPS[xi], PRE[pi], w1, x1, w2):
            return False
    mark("W=%s X=%d" % (W_OPS[wi][0], xi))
    return True


def _race_body(idx):
    from kit.h import decode_point
    pi, w1, x1 = decode_point(idx, race_dims)
    return N._untraced(_race_all)(P.num_pools, P.w, P.x, pi, w1, x1)


def c17_race(idx: int) -> bool:
    """
    pre: 0 <= idx < P.n
    post: _
    """
    return run(_race_body, idx)


# ---- teardown of an evicted pool from ANY queue content ------------------------------------------------------------------------

def teardown_dims(part):
    return [[1, 2, 3], list(range(8)), [0, 1, 2, 3]]


def _teardown(maxsize, mask, way):
    """The pool of an origin holds, bottom to top, live keep-alive connections and None placeholders in any arrangement (a None on
    top of a live connection is what a failed request leaves when another request returned its connection just before).  However
    the pool leaves the cache — clear(), eviction by another origin, close(), dropping the manager — every socket is closed once
    nothing refers to the pool any more."""
    peer = OkPeer()
    netw = N.install(peer)
    E.install_clock()
    try:
        pm = PoolManager(num_pools=1, maxsize=maxsize)
        pool = pm.connection_from_url("http://a/")
        while not pool.pool.empty():
            pool.pool.get_nowait()
        live = 0
        for slot in range(maxsize):
            if mask >> slot & 1:
                c = pool._new_conn()
                c.connect()
                pool.pool.put(c)
                live += 1
            else:
                pool.pool.put(None)
        c = None
        if netw.open_now != live:
            return _fail("harness: %d sockets open, %d expected" % (netw.open_now, live))
        if way == 0:
            pm.clear()
        elif way == 1:
            pm.connection_from_url("http://b/")          # evicts a's pool (num_pools=1)
        elif way == 2:
            pool.close()
        else:
            pm = None
        pool = None
        gc.collect()
        if netw.open_now != 0:
            arrangement = ["live" if mask >> i & 1 else "None" for i in range(maxsize)]
            return _fail("%d socket(s) still open after the pool (queue bottom->top %r) left the cache by %s and was dropped"
                         % (netw.open_now, arrangement, ["clear()", "eviction", "close()", "dropping the manager"][way]))
        mark("torn down")
        return True
    finally:
        N.uninstall()
        E.uninstall_clock()


def _teardown_point(idx):
    from kit.h import decode_point
    maxsize, mask, way = decode_point(idx, teardown_dims)
    return N._untraced(_teardown)(maxsize, mask & ((1 << maxsize) - 1), way)


def c17_teardown(idx: int) -> bool:
    """
    pre: 0 <= idx < P.n
    post: _
    """
    return run(_teardown_point, idx)


DIMS = {"c17_race": race_dims, "c17_teardown": teardown_dims}


def JOBS(tier):
    quick = tier == "quick"
    t = 120 if quick else 900
    jobs = []
    for oi in range(len(OPS)):
        jobs.append({"func": "c17_lru_step", "part": {"op": oi}, "timeout": t})
        if OPS[oi] in ("set", "del", "clear", "pop", "update", "setdefault", "get"):
            # the same step for a container built WITHOUT a dispose callback (what PoolManager does): contents, KeyErrors
            # and the lock discipline must not depend on it
            jobs.append({"func": "c17_lru_step", "part": {"op": oi, "nodispose": True}, "timeout": t})
    for o1 in range(4):
        jobs.append({"func": "c17_lru_seq", "part": {"o1": o1, "length": 3}, "timeout": t})
    for o1 in range(4):
        jobs.append({"func": "c17_manager", "part": {"o1": o1, "length": 3 if quick else 4, "lookup": False},
                     "timeout": t, "path_timeout": 60})
        jobs.append({"func": "c17_manager", "part": {"o1": o1, "length": 4, "lookup": True},
                     "timeout": t, "path_timeout": 60})
    jobs.append({"func": "c17_teardown", "part": {}, "timeout": t, "samples": 1})
    xticks = [10, 10, 4, 19, 10, 14, 10, 10]    # scheduling points of each X script when it runs first (a miss: 9-10; measured)
    for num_pools in (1, 2):
        for w in range(len(W_OPS)):
            for x in range(len(X_OPS)):
                part = {"num_pools": num_pools, "w": w, "x": x, "wmax": 10 if quick else 12, "xmax": xticks[x] + (0 if quick else 2),
                        "pre": [0, 1, 3] if quick else [0, 1, 2, 3, 4]}
                part["n"] = space_size(race_dims(part))
                jobs.append({"func": "c17_race", "part": part, "timeout": t, "path_timeout": 120, "samples": 1})
    return jobs


EVIDENCE = {
    "bounds": {"race": "c17_race: 2 threads on one PoolManager (num_pools 1..2): W = lookup or request of origin a; X = lookup a / "
                       "lookup b / clear() / lookup b then c / request a / lookup b then clear(); 5 pre-states of the cache; EVERY "
                       "schedule (w1 <= 11, x1 <= all of X's scheduling points, w2 <= 11) over lock acquire/release and dict accesses",
               "quick": "container: one operation (12 kinds) from every state with maxsize 0..3 and <= maxsize distinct keys of "
                        "a 4-key pool in any order, + probe suffix; sequences of 3 operations; manager: num_pools 1..3, 3 "
                        "requests (4 lookups) over 4 origins, clear() at any position, first two responses optionally streaming",
               "thorough": "manager: 4 requests; 7x budget"},
    "outside": ["interleavings of three or more threads and more than two pre-emptions of W / one of X (c17_race decides two "
                "threads; beyond that the lock-discipline monitor reduces interleavings to sequential histories — an argument)",
                "pre-emption between byte-codes that touch neither the container's lock nor its dict",
                "keys outside the 4-key pool (hashing pins them)"],
    "stubs": ["in-memory net for the manager layer", "clock"],
    "assumptions": ["every reachable container state is an ordered set of <= maxsize distinct keys (OrderedDict invariant + the "
                    "bound the step re-establishes) => the step covers histories of any length",
                    "RLock semantics: a method body executed with the lock owned is a critical section"],
}
