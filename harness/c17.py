"""C17 — the pool cache is bounded, consistent, and never leaks an evicted pool.

c17_lru_step : inductive step on RecentlyUsedContainer — ONE operation from an arbitrary valid state (maxsize 0..3,
               ordered selection of <= maxsize distinct keys of a 4-key pool, symbolic), followed by a probe suffix of
               fresh inserts that makes the recency order observable through the eviction order.  Asserts contents,
               order, KeyError behaviour, dispose exactly-once/in-order/outside-the-lock, and (monitor) that every
               access to the underlying dict happens with the lock owned.
c17_manager  : PoolManager(num_pools=n) over the in-memory net: <= 4 requests to origins chosen by symbolic index,
               clear() at a symbolic position, streaming responses kept across eviction.
"""
from __future__ import annotations

import gc
from collections import OrderedDict

from kit.h import P, run, mark, known
from urllib3._collections import RecentlyUsedContainer

KEYS = ["k0", "k1", "k2", "k3"]
OPS = ["set", "get", "del", "clear", "len", "keys", "contains", "iter", "get_default", "pop", "setdefault", "update"]


def _fail(msg):
    from kit import h
    h.INFO["why"] = msg
    return False


class Monitored(OrderedDict):
    """The container's dict, recording whether the lock is owned at every access."""
    owner = None
    violations = 0

    def _chk(self):
        if self.owner is not None and not self.owner.lock._is_owned():
            Monitored.violations += 1

    def pop(self, *a):
        self._chk()
        return OrderedDict.pop(self, *a)

    def __setitem__(self, k, v):
        self._chk()
        OrderedDict.__setitem__(self, k, v)

    def popitem(self, last=True):
        self._chk()
        return OrderedDict.popitem(self, last)

    def __len__(self):
        self._chk()
        return OrderedDict.__len__(self)

    def values(self):
        self._chk()
        return OrderedDict.values(self)

    def keys(self):
        self._chk()
        return OrderedDict.keys(self)

    def clear(self):
        self._chk()
        OrderedDict.clear(self)


def _lru_body(maxsize, n, i0, i1, i2, ki):
    op = OPS[P.op]
    disposed = []
    lock_held_in_dispose = []
    box = {}

    def dispose(v):
        disposed.append(v)
        lock_held_in_dispose.append(box["c"].lock._is_owned())

    c = RecentlyUsedContainer(maxsize, dispose_func=dispose)
    box["c"] = c
    mon = Monitored()
    c._container = mon
    Monitored.violations = 0
    idx = [i0, i1, i2][:n]
    ref = []                       # [(key, value)], least recently used first
    val = 100
    for i in idx:
        c[KEYS[i]] = val
        ref.append((KEYS[i], val))
        val += 1
    if disposed:
        return _fail("harness: building a state with n <= maxsize evicted something")
    mon.owner = c
    key = KEYS[ki]
    present = [k for k, _ in ref]
    exp_disposed = []
    if op == "set":
        c[key] = 999
        if key in present:
            j = present.index(key)
            exp_disposed.append(ref[j][1])
            del ref[j]
            ref.append((key, 999))
        else:
            ref.append((key, 999))
            if len(ref) > maxsize:
                exp_disposed.append(ref.pop(0)[1])
    elif op in ("get", "get_default"):
        try:
            r = c[key] if op == "get" else c.get(key, -1)
            if key not in present:
                if op == "get":
                    return _fail("get of absent key returned %r" % (r,))
                if r != -1:
                    return _fail("get(default) of absent key")
            else:
                j = present.index(key)
                if r != ref[j][1]:
                    return _fail("get returned wrong value")
                ref.append(ref.pop(j))
        except KeyError:
            if key in present or op == "get_default":
                return _fail("KeyError for present key / get(default)")
    elif op in ("del", "pop"):
        try:
            if op == "del":
                del c[key]
            else:
                r = c.pop(key)
                if key in present and r != ref[present.index(key)][1]:
                    return _fail("pop value")
            if key not in present:
                return _fail("delete of absent key did not raise")
            j = present.index(key)
            exp_disposed.append(ref[j][1])
            del ref[j]
        except KeyError:
            if key in present:
                return _fail("KeyError deleting a present key")
    elif op == "clear":
        c.clear()
        exp_disposed.extend(v for _, v in ref)
        ref = []
    elif op == "len":
        if len(c) != len(ref):
            return _fail("len")
    elif op == "keys":
        if c.keys() != set(present):
            return _fail("keys()")
    elif op == "contains":
        if (key in c) != (key in present):
            return _fail("membership")
        if key in present:
            # Mapping.__contains__ is built on __getitem__: it counts as a get
            ref.append(ref.pop(present.index(key)))
    elif op == "iter":
        try:
            iter(c)
            return _fail("iteration did not raise NotImplementedError")
        except NotImplementedError:
            pass
    elif op == "setdefault":
        r = c.setdefault(key, 999)
        if key in present:
            j = present.index(key)
            if r != ref[j][1]:
                return _fail("setdefault value")
            ref.append(ref.pop(j))
        else:
            ref.append((key, 999))
            if len(ref) > maxsize:
                exp_disposed.append(ref.pop(0)[1])
    elif op == "update":
        c.update({key: 999})
        if key in present:
            j = present.index(key)
            exp_disposed.append(ref[j][1])
            del ref[j]
            ref.append((key, 999))
        else:
            ref.append((key, 999))
            if len(ref) > maxsize:
                exp_disposed.append(ref.pop(0)[1])
    if len(c) > maxsize:
        return _fail("len %d > maxsize" % len(c))
    if disposed != exp_disposed:
        return _fail("dispose calls %r, expected %r" % (disposed, exp_disposed))
    if c.keys() != set(k for k, _ in ref):
        return _fail("contents %r, expected %r" % (c.keys(), ref))
    # probe suffix: maxsize fresh inserts evict the survivors in recency order
    for j in range(maxsize):
        c["fresh%d" % j] = 1000 + j
    if disposed != exp_disposed + [v for _, v in ref]:
        return _fail("eviction order %r, expected %r" % (disposed[len(exp_disposed):], [v for _, v in ref]))
    if any(lock_held_in_dispose):
        return _fail("dispose callback invoked while the container lock is held")
    if Monitored.violations:
        return _fail("%d accesses to the underlying dict without the lock" % Monitored.violations)
    mark(op)
    return True


def c17_lru_step(maxsize: int, n: int, i0: int, i1: int, i2: int, ki: int) -> bool:
    """
    pre: 0 <= maxsize <= 3 and 0 <= n <= maxsize
    pre: 0 <= i0 <= 3 and 0 <= i1 <= 3 and 0 <= i2 <= 3 and 0 <= ki <= 3
    pre: n < 2 or i0 != i1
    pre: n < 3 or (i0 != i2 and i1 != i2)
    pre: n >= 1 or i0 == 0
    pre: n >= 2 or i1 == 0
    pre: n >= 3 or i2 == 0
    post: _
    """
    return run(_lru_body, maxsize, n, i0, i1, i2, ki)


SEQ = ["set", "get", "del", "clear"]


def _seq_body(maxsize, o1, k1, o2, k2, o3, k3):
    disposed = []
    c = RecentlyUsedContainer(maxsize, dispose_func=disposed.append)
    ref = []
    exp = []
    val = 0
    for (o, k) in [(o1, k1), (o2, k2), (o3, k3)][:P.length]:
        key = KEYS[k]
        op = SEQ[o]
        present = [x for x, _ in ref]
        val += 1
        if op == "set":
            c[key] = val
            if key in present:
                exp.append(ref.pop(present.index(key))[1])
            ref.append((key, val))
            if len(ref) > maxsize:
                exp.append(ref.pop(0)[1])
        elif op == "get":
            try:
                r = c[key]
                if key not in present:
                    return _fail("get absent")
                j = present.index(key)
                if r != ref[j][1]:
                    return _fail("get value")
                ref.append(ref.pop(j))
            except KeyError:
                if key in present:
                    return _fail("KeyError present")
        elif op == "del":
            try:
                del c[key]
                if key not in present:
                    return _fail("del absent")
                exp.append(ref.pop(present.index(key))[1])
            except KeyError:
                if key in present:
                    return _fail("KeyError present")
        else:
            c.clear()
            exp.extend(v for _, v in ref)
            ref = []
        if len(c) > maxsize or len(c) != len(ref):
            return _fail("len")
    for j in range(maxsize):
        c["fresh%d" % j] = 1000 + j
    if disposed != exp + [v for _, v in ref]:
        return _fail("dispose sequence %r expected %r" % (disposed, exp + [v for _, v in ref]))
    return True


def c17_lru_seq(maxsize: int, o1: int, k1: int, o2: int, k2: int, o3: int, k3: int) -> bool:
    """
    pre: 0 <= maxsize <= 3
    pre: o1 == P.o1 and 0 <= o2 <= 3 and 0 <= o3 <= 3
    pre: 0 <= k1 <= 3 and 0 <= k2 <= 3 and 0 <= k3 <= 3
    post: _
    """
    return run(_seq_body, maxsize, o1, k1, o2, k2, o3, k3)


# ---- PoolManager layer -------------------------------------------------------------------------------------

from kit import net as N
from kit import env as E
import urllib3
from urllib3 import PoolManager

ORIGINS = ["http://a/", "http://b/", "http://c:81/", "http://a:8080/"]


class OkPeer(N.BaseHandler):
    """Answers every request with 200 + 10-byte body in two segments (so streaming responses stay open)."""

    def __init__(self):
        self.state = {}

    def on_read(self, sock):
        reqs, _ = N.parse_requests(sock.tx)
        done = self.state.get(sock.id, (0, 0))
        answered, seg = done
        if answered >= len(reqs):
            return b""
        if seg == 0:
            self.state[sock.id] = (answered, 1)
            return b"HTTP/1.1 200 OK\r\nContent-Length: 10\r\n\r\n01234"
        self.state[sock.id] = (answered + 1, 0)
        return b"56789"


class MonPM(PoolManager):
    """Lock-discipline monitor of the get-or-create: the pool for a missing key must be built AND stored inside the same
    critical section as the lookup (container lock owned by the caller) — that is what makes two racing requests with equal
    parameters obtain the same pool object."""
    unlocked = None

    def _new_pool(self, *a, **kw):
        if not self.pools.lock._is_owned():
            self.unlocked.append("_new_pool called without the container lock")
        return super()._new_pool(*a, **kw)


class MonContainer(RecentlyUsedContainer):
    unlocked = None

    def __setitem__(self, k, v):
        if not self.lock._is_owned():       # before our own acquire: only the caller's ownership counts
            self.unlocked.append("pool stored in the cache outside the lookup's critical section")
        RecentlyUsedContainer.__setitem__(self, k, v)


def _manager_body(num_pools, o1, o2, o3, o4, s1, s2, clear_at, lookup_only):
    peer = OkPeer()
    netw = N.install(peer)
    E.install_clock()
    try:
        pm = MonPM(num_pools=num_pools)
        unlocked = []
        pm.unlocked = unlocked
        pm.pools.__class__ = MonContainer
        pm.pools.unlocked = unlocked
        ref = []           # LRU list of origin indices
        pools = {}         # origin idx -> pool object while cached
        streaming = []     # (response, origin idx, pool)
        all_pools = []
        seq = [(o1, s1), (o2, s2), (o3, False), (o4, False)][:P.length]
        for step, (o, stream) in enumerate(seq):
            if clear_at == step:
                pm.clear()
                mark("clear")
                ref = []
                pools = {}
            url = ORIGINS[o]
            if lookup_only:
                pool = pm.connection_from_url(url)
                resp = None
            else:
                resp = pm.request("GET", url, preload_content=not stream, retries=False)
                pool = resp._pool
                if pool is not pm.connection_from_url(url):
                    return _fail("request served by a pool other than the cached one")
            if o in ref:
                if pools[o] is not pool:
                    return _fail("same key, different pool object while cached")
                ref.remove(o)
            else:
                all_pools.append((o, pool))
            ref.append(o)
            pools[o] = pool
            while len(ref) > num_pools:
                ev = ref.pop(0)
                mark("evicted")
                del pools[ev]
            if len(pm.pools) > num_pools:
                return _fail("more than num_pools pools cached")
            if len(pm.pools) != len(ref):
                return _fail("cache holds %d pools, expected %d" % (len(pm.pools), len(ref)))
            if resp is not None:
                if stream:
                    streaming.append((resp, o, pool))
                elif resp.data != b"0123456789":
                    return _fail("body")
            # a cached pool is never closed behind the caller's back
            for oo in ref:
                if pools[oo].pool is None:
                    return _fail("cached pool was closed")
        # in-flight responses of evicted/cleared pools still read correctly
        for resp, o, pool in streaming:
            try:
                data = resp.read()
            except Exception as e:
                return _fail("in-flight response of an evicted pool failed: %r" % (e,))
            if data != b"0123456789":
                return _fail("in-flight response body %r" % (data,))
            resp.release_conn()
            mark("in-flight finished")
        # once nothing uses an evicted pool any more, its sockets are closed
        cached = [pools[o] for o in ref]
        resp = pool = None
        streaming = []
        evicted_ids = []
        for o, p in all_pools:
            if not any(p is c for c in cached):
                evicted_ids.append(id(p))
        p = None
        del all_pools
        gc.collect()
        cached_addrs = [(c.host, c.port) for c in cached]
        for s in netw.socks:
            if not s.closed and (s.address[0], s.address[1]) not in cached_addrs:
                return _fail("socket to %r still open although its pool was evicted and dropped" % (s.address,))
        for c in cached:
            if c.pool is None:
                return _fail("cached pool closed")
        if unlocked:
            return _fail("get-or-create is not atomic: %s" % unlocked[0])
        return True
    finally:
        N.uninstall()
        E.uninstall_clock()


def c17_manager(num_pools: int, o1: int, o2: int, o3: int, o4: int, s1: bool, s2: bool, clear_at: int,
                lookup_only: bool) -> bool:
    """
    pre: 1 <= num_pools <= 3
    pre: o1 == P.o1 and 0 <= o2 <= 3 and 0 <= o3 <= 3 and 0 <= o4 <= 3
    pre: -1 <= clear_at < P.length
    pre: lookup_only == P.lookup
    pre: not lookup_only or (not s1 and not s2)
    post: _
    """
    return run(_manager_body, num_pools, o1, o2, o3, o4, s1, s2, clear_at, lookup_only)


def JOBS(tier):
    quick = tier == "quick"
    t = 120 if quick else 900
    jobs = []
    for oi in range(len(OPS)):
        jobs.append({"func": "c17_lru_step", "part": {"op": oi}, "timeout": t})
    for o1 in range(4):
        jobs.append({"func": "c17_lru_seq", "part": {"o1": o1, "length": 3}, "timeout": t})
    for o1 in range(4):
        jobs.append({"func": "c17_manager", "part": {"o1": o1, "length": 3 if quick else 4, "lookup": False},
                     "timeout": t, "path_timeout": 60})
        jobs.append({"func": "c17_manager", "part": {"o1": o1, "length": 4, "lookup": True},
                     "timeout": t, "path_timeout": 60})
    return jobs


EVIDENCE = {
    "bounds": {"quick": "container: one operation (12 kinds) from every state with maxsize 0..3 and <= maxsize distinct keys of "
                        "a 4-key pool in any order, + probe suffix; sequences of 3 operations; manager: num_pools 1..3, 3 "
                        "requests (4 lookups) over 4 origins, clear() at any position, first two responses optionally streaming",
               "thorough": "manager: 4 requests; 7x budget"},
    "outside": ["free thread interleavings: reduced to sequential histories by the lock-discipline monitor (every access to "
                "the underlying dict happens with the RLock owned, dispose never under the lock) — an argument, not explored",
                "keys outside the 4-key pool (hashing pins them)"],
    "stubs": ["in-memory net for the manager layer", "clock"],
    "assumptions": ["every reachable container state is an ordered set of <= maxsize distinct keys (OrderedDict invariant + the "
                    "bound the step re-establishes) => the step covers histories of any length",
                    "RLock semantics: a method body executed with the lock owned is a critical section"],
}
