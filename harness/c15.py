"""C15 — what goes on the wire is exactly what the URL says.

c15_wire : PoolManager / ProxyManager .request("GET", url) over the in-memory net with the TLS contract stub.  One solver variable
           enumerates the URL: scheme spelling x host form (name, upper case, trailing dot, IPv4, [v6], [v6%25zone], upper-case v6,
           A-label) x port (absent / explicit default / other) x userinfo x path form x query form x fragment, partitioned by
           (scheme, proxy).  Asserts, against a reference computed with plain string operations: the dialled address, the Host
           header, the TLS server name (no brackets, zone or trailing dot), the request target (normalised path + query, '/' when
           empty, never fragment or userinfo); the canonical twin of the URL (lower-case scheme/host, default port left out) reaches
           the SAME pool object and produces byte-identical requests; a following request to another origin through the same
           manager carries its own Host.
"""
from __future__ import annotations

import re

from kit.h import P, run, mark, known, decode_point, space_size
from kit import net as N
from kit import env as E
from kit import tls as T

from urllib3 import PoolManager, ProxyManager
from urllib3.exceptions import HTTPError

from harness.c10 import ref_encode, PATH_OK, QUERY_OK
from harness.c14 import ref_remove_dot_segments

# (text in the URL, canonical text, dialled host, Host header host, TLS server name)
HOSTS = [
    ("example.com", "example.com", "example.com", "example.com", "example.com"),
    ("EXAMPLE.Com", "example.com", "example.com", "example.com", "example.com"),
    ("example.com.", "example.com.", "example.com.", "example.com", "example.com"),
    ("1.2.3.4", "1.2.3.4", "1.2.3.4", "1.2.3.4", "1.2.3.4"),
    ("[::1]", "[::1]", "::1", "[::1]", "::1"),
    ("[fe80::1%25eth0]", "[fe80::1%25eth0]", "fe80::1%eth0", None, "fe80::1"),
    ("[FE80::A]", "[fe80::a]", "fe80::a", "[fe80::a]", "fe80::a"),
    ("xn--nxasmq6b.com", "xn--nxasmq6b.com", "xn--nxasmq6b.com", "xn--nxasmq6b.com", "xn--nxasmq6b.com"),
]
PATHS = ["", "/", "/a/b", "/a b", "/a/../b/./c", "/%7euser/%zz", "/caf\u00e9", "//a//b"]
QUERIES = [None, "q=1&r=2", "a b=\u20ac", ""]
SCHEMES = {"http": ["http", "HTTP"], "https": ["https", "HttpS"]}


def _fail(msg):
    from kit import h
    h.INFO["why"] = msg
    return False


class Sink(N.BaseHandler):
    def __init__(self):
        self.state = {}
        self.heads = []      # (sock id, tunnelled?, head)

    def on_send(self, sock, data):
        st = self.state.setdefault(sock.id, {"got": b"", "pos": 0, "queue": []})
        st["got"] += data
        while True:
            buf = st["got"][st["pos"]:]
            end = buf.find(b"\r\n\r\n")
            if end < 0:
                break
            head = buf[:end]
            st["pos"] += end + 4
            tunnelled = getattr(sock, "tunnel_established", False)
            if head.startswith(b"CONNECT ") and not tunnelled:
                sock.tunnel_established = True
                sock.tunnel_target = None
                self.heads.append((sock.id, "connect", head))
                st["queue"].append(b"HTTP/1.0 200 OK\r\n\r\n")
            else:
                self.heads.append((sock.id, "tunnel" if tunnelled else "plain", head))
                st["queue"].append(N.response_bytes(200, "OK", body=b"ok"))

    def on_read(self, sock):
        st = self.state.setdefault(sock.id, {"got": b"", "pos": 0, "queue": []})
        return st["queue"].pop(0) if st["queue"] else b""


def dims_of(part):
    return [SCHEMES[part["scheme"]], part["hosts"], [0, 1, 2], [False, True], part["paths"], list(range(len(QUERIES))), [False, True]]


def _wire_body(idx):
    sch, host_i, port_k, userinfo, path_i, query_i, frag = decode_point(idx, dims_of)
    return N._untraced(_wire)(P.scheme, P.proxy, sch, host_i, port_k, userinfo, path_i, query_i, frag)


def ref_target(path, query):
    p = ref_remove_dot_segments(path) if path else ""
    t = ref_encode(p, PATH_OK) or "/"
    if query is not None:
        t += "?" + ref_encode(query, QUERY_OK)
    return t


def _wire(scheme, proxy, sch, host_i, port_k, userinfo, path_i, query_i, frag):
    text, canon, dial_host, host_hdr, sni = HOSTS[host_i]
    default = 443 if scheme == "https" else 80
    port = [None, default, 8080][port_k]
    eff_port = port if port is not None else default
    path = PATHS[path_i]
    query = QUERIES[query_i]

    def build(s, h, p):
        u = "%s://%s%s%s%s" % (s, "user:p%40w@" if userinfo else "", h, (":%d" % p) if p is not None else "", path)
        if query is not None:
            u += "?" + query
        if frag:
            u += "#frag/x?y"
        return u
    url = build(sch, text, port)
    twin = build(scheme, canon, None if port_k in (0, 1) else port)
    script = T.Script({}, T.Cert("default", (("DNS", "*"),)))
    # the contract's name check is not the subject here: every peer certificate is valid for whatever name is asked
    T_nameok = T._name_ok
    T._name_ok = lambda cert, hostname, cn: True
    peer = Sink()
    netw = N.install(peer)
    E.install_clock()
    T.install(script, "ssl", True)
    try:
        if proxy:
            # use_forwarding_for_https only concerns https proxies: through a plain-http proxy an https URL is still tunnelled
            pm = ProxyManager("http://proxy.example:3128", headers={"X-Default": "d"},
                              **({"use_forwarding_for_https": True} if P.get("fwd_flag") else {}))
        else:
            pm = PoolManager(headers={"X-Default": "d"})
        try:
            r1 = pm.request("GET", url, retries=False)
        except HTTPError as e:
            return _fail("%r: request failed: %r" % (url, e))
        want_target = ref_target(path, query)
        want_host = None if host_hdr is None else (host_hdr if port_k in (0, 1) else "%s:%d" % (host_hdr, port))
        tunnelled = proxy and scheme == "https"
        # ---- dial ----
        want_dial = ("proxy.example", 3128) if proxy else (dial_host, eff_port)
        if netw.dials[0][0] != want_dial:
            return _fail("%r: TCP connection opened to %r, the URL says %r" % (url, netw.dials[0][0], want_dial))
        heads = list(peer.heads)
        if tunnelled:
            c = [h for h in heads if h[1] == "connect"]
            if len(c) != 1:
                return _fail("%r: expected one CONNECT, saw %d" % (url, len(c)))
            tgt = c[0][2].split(b" ")[1].decode()
            if not tgt.endswith(":%d" % eff_port):
                return _fail("%r: CONNECT %r, port should be %d" % (url, tgt, eff_port))
            if host_i in (4, 5, 6) and not tgt.startswith("["):
                return _fail("%r: CONNECT %r lost the brackets" % (url, tgt))
        reqs = [h for h in heads if h[1] != "connect"]
        if len(reqs) != 1:
            return _fail("%r: %d requests on the wire" % (url, len(reqs)))
        head = reqs[0][2]
        rl = head.split(b"\r\n")[0].decode("latin-1")
        fields = [(ln.split(b":", 1)[0].strip().lower(), ln.split(b":", 1)[1].strip()) for ln in head.split(b"\r\n")[1:] if b":" in ln]
        # ---- request target ----
        if proxy and scheme == "http":
            m = re.match(r"^GET (\S+) HTTP/1\.1$", rl)
            if not m:
                return _fail("%r: request line %r" % (url, rl))
            tgt = m.group(1)
            if "#" in tgt or "frag/x" in tgt:
                return _fail("%r: fragment in the forwarded target %r" % (url, tgt))
            if "user:p" in tgt or "@" in tgt.split("/")[2]:
                # known finding F21: the absolute-form target sent to a forwarding proxy keeps the URL's userinfo
                if not (userinfo and known("F21")):
                    return _fail("%r: userinfo in the forwarded target %r" % (url, tgt))
            # absolute-form: an empty path may stay empty (RFC 3986 path-abempty); otherwise the normalised path + query
            alt = want_target[1:] if not path else want_target
            if not tgt.lower().startswith("http://") or not (tgt.endswith(want_target) or tgt.endswith(alt)):
                return _fail("%r: forwarded target %r, expected absolute-form ending in %r" % (url, tgt, want_target))
        else:
            if rl != "GET %s HTTP/1.1" % want_target:
                return _fail("%r: request line %r, expected target %r" % (url, rl, want_target))
        # ---- Host ----
        hv = [v.decode("latin-1") for n, v in fields if n == b"host"]
        if len(hv) != 1:
            return _fail("%r: %d Host headers" % (url, len(hv)))
        f22 = False
        if want_host is not None and not (tunnelled and host_i in (4, 5, 6)):
            got_h = hv[0].lower()
            # 'example.com.' and 'example.com' name the same host: either spelling of the trailing dot is accepted in Host
            alts = {want_host.lower(), want_host.lower().replace("example.com", "example.com.")}
            if got_h not in alts:
                # known finding F22: through a forwarding proxy an explicit default port is kept (Host and target)
                if proxy and scheme == "http" and port_k == 1 and got_h in {a + ":%d" % default for a in alts} and known("F22"):
                    f22 = True
                else:
                    return _fail("%r: Host %r, the URL says %r" % (url, hv[0], want_host))
        if "user" in hv[0] or "@" in hv[0]:
            return _fail("%r: userinfo in Host %r" % (url, hv[0]))
        for n, v in fields:
            if b"p%40w" in v or b"p@w" in v:
                return _fail("%r: password on the wire in %r" % (url, (n, v)))
        # ---- TLS server name ----
        if scheme == "https":
            layers = []
            for s in netw.socks:
                layers.extend(getattr(s, "tls_layers", []))
            if len(layers) != 1:
                return _fail("%r: %d TLS handshakes" % (url, len(layers)))
            if layers[0]["server_hostname"] != sni:
                return _fail("%r: TLS server name %r, expected %r (no brackets, zone id or trailing dot)" % (url, layers[0]["server_hostname"], sni))
        # ---- canonical twin: same pool, same bytes ----
        p1 = pm.connection_from_url(url)
        p2 = pm.connection_from_url(twin)
        if p1 is not p2:
            return _fail("%r and %r reach different pools" % (url, twin))
        before = len(peer.heads)
        try:
            pm.request("GET", twin, retries=False)
        except HTTPError as e:
            return _fail("twin %r failed: %r" % (twin, e))
        reqs2 = [h for h in peer.heads[before:] if h[1] != "connect"]
        if f22 or (proxy and scheme == "http" and port_k == 1 and known("F22")):
            pass
        elif len(reqs2) != 1 or reqs2[0][2] != head:
            return _fail("%r and its canonical twin %r produce different requests:\n%r\n%r" % (url, twin, head, reqs2[0][2] if reqs2 else None))
        if len(netw.socks) != 1:
            return _fail("the twin opened a second connection")
        # ---- another origin through the same manager ----
        before = len(peer.heads)
        try:
            pm.request("GET", "http://second.example:81/z", retries=False)
        except HTTPError as e:
            return _fail("second origin failed: %r" % (e,))
        h3 = [h for h in peer.heads[before:] if h[1] != "connect"][0][2]
        f3 = [(ln.split(b":", 1)[0].strip().lower(), ln.split(b":", 1)[1].strip()) for ln in h3.split(b"\r\n")[1:] if b":" in ln]
        hv3 = [v for n, v in f3 if n == b"host"]
        if hv3 != [b"second.example:81"]:
            return _fail("after %r a request to http://second.example:81/z carries Host %r" % (url, hv3))
        if not proxy and netw.dials[-1][0] != ("second.example", 81):
            return _fail("second origin dialled %r" % (netw.dials[-1][0],))
        mark("ok")
        return True
    finally:
        T._name_ok = T_nameok
        T.uninstall()
        N.uninstall()
        E.uninstall_clock()


def c15_wire(idx: int) -> bool:
    """
    pre: 0 <= idx < P.n
    post: _
    """
    return run(_wire_body, idx)


# ---- two spellings of one origin used for the first time at the same moment -------------------------------------------------

def race_dims(part):
    from harness import c17
    return c17.race_dims(part)


def _race_body(idx):
    """`http://a/` from one thread, `HTTP://A:80/` from another, every schedule of the two over the manager's cache (machinery of
    C17's c17_race): both must end up on the same pool object, whichever comes first."""
    from harness import c17
    pi, w1, x1 = decode_point(idx, race_dims)
    return N._untraced(c17._race_all)(P.num_pools, P.w, P.x, pi, w1, x1)


def c15_race(idx: int) -> bool:
    """
    pre: 0 <= idx < P.n
    post: _
    """
    return run(_race_body, idx)


DIMS = {"c15_wire": dims_of, "c15_race": race_dims}


def JOBS(tier):
    quick = tier == "quick"
    t = 170 if quick else 900
    jobs = []
    for scheme in ("http", "https"):
        for proxy in (False, True):
            for hosts in ([[0, 1, 2], [3, 4], [5, 6, 7]]):
                part = {"scheme": scheme, "proxy": proxy, "hosts": hosts, "paths": [0, 1, 3, 4, 5, 7] if quick else list(range(len(PATHS)))}
                part["n"] = space_size(dims_of(part))
                jobs.append({"func": "c15_wire", "timeout": t, "path_timeout": 60, "samples": 1, "part": part})
    part = {"scheme": "https", "proxy": True, "hosts": [0, 4, 6], "paths": [1, 3], "fwd_flag": True}
    part["n"] = space_size(dims_of(part))
    jobs.append({"func": "c15_wire", "timeout": t, "path_timeout": 60, "samples": 1, "part": part})
    for w, x in ((0, 6), (1, 6), (0, 7)):
        part = {"num_pools": 2, "w": w, "x": x, "wmax": 10, "xmax": 10, "pre": [0, 2]}
        part["n"] = space_size(race_dims(part))
        jobs.append({"func": "c15_race", "timeout": t, "path_timeout": 120, "samples": 1, "part": part})
    return jobs


EVIDENCE = {
    "bounds": {"race": "c15_race: 'http://a/' and 'HTTP://A:80/' looked up / requested for the first time by two threads, every 2-thread "
                       "schedule over the manager cache's lock and dict accesses (w1, w2 <= 10, x1 <= 10), empty or foreign pre-state",
               "quick": "2 schemes x 2 spellings x 8 host forms (name, upper case, trailing dot, IPv4, [::1], zoned [fe80::1%25eth0], upper-case "
                        "v6, A-label) x port {absent, explicit default, 8080} x userinfo x 5 path forms (empty, '/', space, dot segments, escapes) "
                        "x 4 query forms x fragment, directly and through an http proxy (forwarding for http, CONNECT for https): every URL "
                        "enumerated, each followed by its canonical twin and by a request to another origin",
               "thorough": "+ non-ASCII path"},
    "outside": ["IDN U-labels (idna package tables)", "Host header of IPv6 literals inside a CONNECT tunnel (see known finding F20 of C09)",
                "URLs outside the enumerated component pool (C14 covers the parser itself)"],
    "stubs": ["kit/tls.py contract (name check disabled: not the subject)", "create_connection -> MemSock", "clock constant", "logging disabled"],
    "assumptions": ["the reference is computed by plain string operations on the URL components, RFC 3986 5.2.4 for dot segments"],
}
