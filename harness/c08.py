"""C08 — certificate name and fingerprint matching accept exactly what the rules allow.

LEMMAS (E2, hostnames of ANY length): for every DNS pattern built from the property's label alphabet the regex that the
  real _dnsname_match compiles (captured through a recording stand-in for the module's `re`) is translated and compared with
  reference languages written from RFC 6125 6.4.3: `*.rest` accepts exactly one non-empty dot-free left-most label; a
  wildcard never matches across a dot or outside the left-most label; wildcards inside an A-label (xn--, any letter case)
  are not expanded.
c08_dns  (E1): match_hostname / connection._match_hostname on SAN lists from the label alphabet against hostnames of 1-3
  labels chosen by symbolic indices, commonName on/off, against an independent reference (ACCEPT / REJECT / EITHER).
c08_ip   (E1): IP SAN entries vs IP hosts in canonical and non-canonical spellings, brackets, zones; DNS entries never match IPs.
c08_pin  (E1): assert_fingerprint on pins derived from the true MD5/SHA-1/SHA-256 digests by symbolic edit scripts.
"""
from __future__ import annotations

import hashlib
import ipaddress
import re

from kit.h import P, run, mark, known, concretize, decode_point

import urllib3.util.ssl_match_hostname as M
from urllib3.util.ssl_match_hostname import match_hostname, CertificateError
from urllib3.connection import _match_hostname
from urllib3.util.ssl_ import assert_fingerprint
from urllib3.exceptions import SSLError

LABELS = ["a", "b", "ab", "*", "a*", "*a", "a*b", "**", "xn--a", "xn--*", "", "A", "XN--a", "XN--*", "x"]
HOST_LABELS = ["a", "b", "ab", "", "A", "xn--a", "XN--a", "x", "aab", "xn--", "*"]

DN_POOL = ["a.b", "*.b", "*.a.b", "a.*.b", "a*.b", "*a.b", "a*b.b", "**.b", "*", "*.*", "xn--*.b", "XN--*.b", "xn--a.b",
           "A.B", "*.", "b", "ab.b", "a.b.", "xn--a*.b", "*.xn--a"]


def _fail(msg):
    from kit import h
    h.INFO["why"] = msg
    return False


ACCEPT, REJECT, EITHER = "ACCEPT", "REJECT", "EITHER"


def ref_dns(dn, host):
    """RFC 6125 6.4.3 / RFC 9110 4.3.5 for one DNS identifier.  EITHER where the rules leave it open."""
    if not dn:
        return REJECT
    dl = dn.split(".")
    hl = host.split(".")
    stars = dn.count("*")
    if "*" in host:
        return EITHER                    # '*' is not a hostname character: what such a "host" matches is left open
    if stars == 0:
        return ACCEPT if dn.lower() == host.lower() else REJECT
    left = dl[0]
    if left.count("*") != stars:
        return REJECT                    # wildcard outside the left-most label
    if stars > 1:
        return REJECT
    if left.lower().startswith("xn--"):
        return REJECT if dn.lower() != host.lower() else EITHER   # wildcard inside an A-label is not a wildcard
    if len(hl) != len(dl):
        return REJECT                    # a wildcard never spans a dot
    if [x.lower() for x in dl[1:]] != [x.lower() for x in hl[1:]]:
        return REJECT
    if left == "*":
        if hl[0] == "":
            return REJECT                # never matches an empty label
        if len(dl) == 1:
            return EITHER                # bare '*'
        if hl[0].lower().startswith("xn--"):
            return EITHER
        return ACCEPT
    # partial-label wildcard: must at least be consistent with the literal parts; otherwise open
    pre, post = left.split("*")
    h0 = hl[0]
    if not (len(h0) >= len(pre) + len(post) and h0.lower().startswith(pre.lower()) and h0.lower().endswith(post.lower())):
        return REJECT
    if h0.lower().startswith("xn--"):
        return REJECT                    # the wildcard would expand inside the host's A-label (RFC 6125 6.4.3 rule 3)
    return EITHER


def ref_match(san, cn, host, cn_enabled):
    """san: list of (kind, value).  Returns ACCEPT/REJECT/EITHER for a DNS host."""
    verdicts = []
    for kind, val in san:
        if kind == "DNS":
            verdicts.append(ref_dns(val, host))
    if any(v == ACCEPT for v in verdicts):
        return ACCEPT
    if any(v == EITHER for v in verdicts):
        return EITHER
    # RFC 6125 6.4.4: the commonName is a last resort, only when the certificate presents no DNS / IP identifiers at all
    if not any(kind in ("DNS", "IP Address") for kind, _ in san) and cn_enabled and cn is not None:
        return ref_dns(cn, host)
    return REJECT


def _call(fn, cert, host, cn_enabled):
    # every argument has been realised (solver-enumerated): the matcher runs outside the tracer on concrete values
    try:
        fn(cert, host, cn_enabled)
        return "accept", None
    except CertificateError as e:
        return "reject", e
    except Exception as e:
        return "error", e


def _dns_body(nl, h0, h1, h2, trailing_dot, entry, cn_enabled, cn_i, order):
    labels = [HOST_LABELS[h0], HOST_LABELS[h1], HOST_LABELS[h2]][:nl]
    host = ".".join(labels) + ("." if trailing_dot else "")
    sans = P.sans
    san = [tuple(x) for x in sans]
    if order and len(san) > 1:
        san = san[::-1]
    cn = DN_POOL[cn_i] if cn_i >= 0 else None
    cert = {"subjectAltName": tuple(san)}
    if cn is not None:
        cert["subject"] = ((("commonName", cn),),)
    if not san:
        del cert["subjectAltName"]
        cert["subject"] = ((("commonName", cn if cn is not None else "zz"),),)
        if cn is None:
            cn = "zz"
    want = ref_match(san, cn, host, cn_enabled)
    if trailing_dot or not host or host.endswith(".") or any(ord(c) > 127 for c in host):
        want = EITHER if want == ACCEPT else want
    try:
        ipaddress.ip_address(host)
        return True      # IP hosts: c08_ip
    except ValueError:
        pass
    for fn in (match_hostname, _match_hostname):
        got, err = _call(fn, cert, host, cn_enabled)
        if got == "error":
            return _fail("%s(%r, %r, cn=%s) raised %r" % (fn.__name__, cert, host, cn_enabled, err))
        if want == ACCEPT and got != "accept":
            return _fail("%s rejects host %r for %r (cn %r enabled=%s): rules say ACCEPT" % (fn.__name__, host, san, cn, cn_enabled))
        if want == REJECT and got != "reject":
            return _fail("%s accepts host %r for %r (cn %r enabled=%s): rules say REJECT" % (fn.__name__, host, san, cn, cn_enabled))
    mark(want)
    return True


def dns_dims(part):
    hl = part["hl"]
    hosts = [(1, a, hl[0], hl[0]) for a in hl] + [(2, a, b, hl[0]) for a in hl for b in hl]
    if part["maxlabels"] >= 3:
        hosts += [(3, a, b, c) for a in hl for b in hl for c in hl]
    return [hosts, [False, True] if part["dots"] else [False], [False, True], part["cns"], [False, True] if part["multi"] else [False]]


def _dns_point(idx):
    (nl, h0, h1, h2), td, cne, cn_i, order = decode_point(idx, dns_dims)
    return N_untraced(_dns_body)(nl, h0, h1, h2, td, 0, cne, cn_i, order)


def N_untraced(fn):
    from kit.net import _untraced
    return _untraced(fn)


def c08_dns(idx: int) -> bool:
    """
    pre: 0 <= idx < P.n
    post: _
    """
    return run(_dns_point, idx)


# ---- IP ----------------------------------------------------------------------------------------------------------------

IP_HOSTS = ["1.2.3.4", "1.2.3.5", "::1", "0:0:0:0:0:0:0:1", "::0001", "::a", "::A", "fe80::1%eth0", "fe80::1", "[::1]",
            "[fe80::1%25eth0]", "0::1", "1.2.3.4.", "::ffff:1.2.3.4", "[1.2.3.4]"]
IP_SANS = ["1.2.3.4", "1.2.3.5", "::1", "0:0:0:0:0:0:0:1", "::A", "fe80::1", "1.2.3.4\n", "::ffff:102:304", "0:0:0:0:0:0:0:a"]


def _ip_body(hi, si, with_dns, use_conn, cn_enabled):
    host = IP_HOSTS[hi]
    sanv = IP_SANS[si]
    san = [("IP Address", sanv)]
    if with_dns:
        # a DNS entry spelled like the host must never match an IP host
        san.insert(0, ("DNS", host.strip("[]").split("%")[0]))
        san.append(("DNS", "*"))
    cert = {"subjectAltName": tuple(san), "subject": ((("commonName", host.strip("[]")),),)}
    fn = _match_hostname if use_conn else match_hostname
    h = host
    if not use_conn and h.startswith("["):
        return True        # match_hostname itself is documented for bare addresses; brackets are the wrapper's job
    bare = h.strip("[]") if use_conn else h
    zone_stripped = bare.split("%")[0]
    try:
        hip = ipaddress.ip_address(zone_stripped)
    except ValueError:
        return True        # not an IP literal after all ('1.2.3.4.' is a DNS-looking name): out of this harness
    want = ipaddress.ip_address(sanv.rstrip()).packed == hip.packed
    got, err = _call(fn, cert, h, cn_enabled)
    if got == "error":
        return _fail("%s(%r, %r) raised %r" % (fn.__name__, san, h, err))
    if want and got != "accept":
        return _fail("IP host %r rejected although SAN %r is the same address" % (h, sanv))
    if not want and got != "reject":
        return _fail("IP host %r accepted for SAN list %r (different address / DNS entry / commonName)" % (h, san))
    mark("ip match" if want else "ip mismatch")
    return True


def ip_dims(part):
    return [list(range(len(IP_HOSTS))), list(range(len(IP_SANS))), [False, True], [False, True], [False, True]]


def _ip_point(idx):
    return N_untraced(_ip_body)(*decode_point(idx, ip_dims))


def c08_ip(idx: int) -> bool:
    """
    pre: 0 <= idx < P.n
    post: _
    """
    return run(_ip_point, idx)


# ---- fingerprints --------------------------------------------------------------------------------------------------------

CERTS = [b"cert-one", b"\x30\x82\x01\x0a" + bytes(range(64)), b""]
HEXD = "0123456789abcdef"


def digests(cert):
    return [hashlib.md5(cert).hexdigest(), hashlib.sha1(cert).hexdigest(), hashlib.sha256(cert).hexdigest()]


def _pin_body(ci, di, op, i, c, n):
    cert = CERTS[ci]
    true = digests(cert)[di]
    L = len(true)
    i = i % L
    pin = true
    if op == 0:
        pass
    elif op == 1:                      # flip the case of one character
        pin = true[:i] + true[i].upper() + true[i + 1:]
    elif op == 2:                      # colon inserted at an arbitrary position
        pin = true[:i] + ":" + true[i:]
    elif op == 3:                      # one nibble replaced
        pin = true[:i] + HEXD[c] + true[i + 1:]
    elif op == 4:                      # truncated
        pin = true[:n % L]
    elif op == 5:                      # extended
        pin = true + HEXD[c] * (1 + n % 2)
    elif op == 6:                      # conventional colon form, upper case
        pin = ":".join(true[k:k + 2] for k in range(0, L, 2)).upper()
    elif op == 7:                      # digest of another certificate, right length
        pin = digests(CERTS[(ci + 1) % len(CERTS)])[di]
    else:                              # a digest of the right cert but the wrong algorithm padded/cut to another valid length
        other = digests(cert)[(di + 1) % 3]
        pin = (other + other)[:L]
    norm = pin.replace(":", "").lower()
    want = len(norm) in (32, 40, 64) and norm == digests(cert)[{32: 0, 40: 1, 64: 2}[len(norm)]]
    try:
        assert_fingerprint(cert, pin)
        got = True
        err = None
    except SSLError as e:
        got = False
        err = e
    except Exception as e:
        return _fail("assert_fingerprint(%r) raised %r, not SSLError" % (pin, e))
    if got != want:
        return _fail("pin %r (op %d) for digest %r: %s, expected %s" % (pin, op, true, "accepted" if got else "rejected: %r" % (err,),
                                                                  "accept" if want else "reject"))
    mark("pin ok" if want else "pin rejected")
    return True


def pin_dims(part):
    edits = []
    for op in part["ops"]:
        for i in (part["iis"] if op in (1, 2, 3) else [0]):
            for c in (part["cs"] if op in (3, 5) else [0]):
                for n in (part["ns"] if op in (4, 5) else [0]):
                    edits.append((op, i, c, n))
    return [list(range(len(CERTS))), [0, 1, 2], edits]


def _pin_point(idx):
    ci, di, (op, i, c, n) = decode_point(idx, pin_dims)
    return N_untraced(_pin_body)(ci, di, op, i, c, n)


def c08_pin(idx: int) -> bool:
    """
    pre: 0 <= idx < P.n
    post: _
    """
    return run(_pin_point, idx)


DIMS = {"c08_dns": dns_dims, "c08_ip": ip_dims, "c08_pin": pin_dims}


# ---- E2 lemmas ------------------------------------------------------------------------------------------------------------

class _RecordingRe:
    """Stand-in for the `re` module inside ssl_match_hostname: records what _dnsname_match compiles."""

    def __init__(self):
        self.compiled = []
        self.IGNORECASE = re.IGNORECASE

    def escape(self, s):
        return re.escape(s)

    def compile(self, pat, flags=0):
        p = re.compile(pat, flags)
        self.compiled.append(p)
        return p


def captured_pattern(dn, host_probe):
    rec = _RecordingRe()
    saved = M.re
    M.re = rec
    try:
        try:
            M._dnsname_match(dn, host_probe)
        except CertificateError:
            return "too-many-wildcards"
    finally:
        M.re = saved
    return rec.compiled[-1] if rec.compiled else None


def LEMMAS(tier):
    import z3
    from engine import re2smt as R
    out = []
    nodot = R._ranges_to_re([(0, ord(".") - 1), (ord(".") + 1, R.MAXCHAR)])

    def ci(s):
        parts = []
        for ch in s:
            alts = {ch, ch.lower(), ch.upper()}
            # the Kelvin sign etc.: anything that case-folds onto the same letter under re.IGNORECASE
            for extra in ("K", "ſ", "İ", "ı"):
                if re.fullmatch(re.escape(ch), extra, re.I):
                    alts.add(extra)
            parts.append(R.chars("".join(sorted(alts))))
        return z3.Concat(*parts) if len(parts) > 1 else (parts[0] if parts else R.lit(""))

    def lemma(name, regex, replay, query):
        try:
            out.append(R.decide_empty(name, regex, replay=replay, query=query, timeout=120))
        except R.Unsupported as e:
            out.append({"name": name, "verdict": "inconclusive", "detail": "unsupported: %s" % e})

    dns = [d for d in DN_POOL if "*" in d]
    for dn in dns:
        for probe, tag in (("q.q", "host not an A-label"), ("xn--q.q", "host starts with xn--")):
            pat = captured_pattern(dn, probe)
            if pat == "too-many-wildcards":
                out.append({"name": "%r: more than one wildcard in the left-most label is refused" % dn, "verdict": "holds",
                            "query": "_dnsname_match raises CertificateError", "queries": 1, "seconds": 0, "validated": 1})
                break
            if pat is None:
                # no regex compiled: decided by plain comparison (no wildcard expansion at all)
                continue
            try:
                tr = R.Translator(pat)
                L = tr.language()
            except R.Unsupported as e:
                out.append({"name": "translate pattern for %r" % dn, "verdict": "inconclusive", "detail": str(e)})
                continue
            labels = dn.split(".")
            k = len(labels) - 1
            left = labels[0]
            shape = z3.Concat(z3.Star(nodot), *[z3.Concat(R.lit("."), z3.Star(nodot)) for _ in range(k)]) if k else z3.Star(nodot)

            def rp_outside(w, dn=dn):
                return bool(M._dnsname_match(dn, w)) and w.count(".") != dn.count(".")
            lemma("%r (%s): the wildcard never matches across a dot" % (dn, tag), z3.Intersect(L, z3.Complement(shape)), rp_outside,
                  "L(compiled) - hostnames with exactly %d dots" % k)
            # everything right of the left-most label is matched literally (case-insensitively): a '*' there is no wildcard
            if k:
                rest = ci("." + ".".join(labels[1:]))
                lemma("%r (%s): labels after the first are literal" % (dn, tag),
                      z3.Intersect(L, z3.Complement(z3.Concat(z3.Star(nodot), rest))),
                      lambda w, dn=dn: bool(M._dnsname_match(dn, w)) and not w.lower().endswith("." + ".".join(dn.split(".")[1:]).lower()),
                      "L(compiled) - [^.]* '.%s'" % ".".join(labels[1:]))
            if left == "*":
                ref = z3.Concat(z3.Plus(nodot), ci("." + ".".join(labels[1:]))) if k else z3.Plus(nodot)
                lemma("%r (%s): '*' accepts exactly one NON-EMPTY dot-free label : L - ref" % (dn, tag),
                      z3.Intersect(L, z3.Complement(ref)),
                      lambda w, dn=dn: bool(M._dnsname_match(dn, w)) and (w.split(".")[0] == "" or w.count(".") != dn.count(".")),
                      "L(compiled) - [^.]+ rest")
                if tag == "host not an A-label":
                    lemma("%r: every <label>.rest host is accepted : ref - L" % dn, z3.Intersect(ref, z3.Complement(L)),
                          lambda w, dn=dn: not M._dnsname_match(dn, w) and not w.lower().startswith("xn--"),
                          "[^.]+ rest - L(compiled)")
            if tag == "host starts with xn--" and left != "*" and "*" in left:
                # a partial wildcard must not expand inside the A-label of the HOST either: for hosts starting with xn-- the
                # pattern compiled is the literal identifier
                alabel = z3.Concat(ci("xn--"), tr.alphabet_star())
                lemma("%r: a partial wildcard is not expanded against a host whose left-most label is an A-label" % dn,
                      z3.Intersect(L, alabel, z3.Complement(ci(dn))),
                      lambda w, dn=dn: bool(M._dnsname_match(dn, w)) and w.lower().startswith("xn--") and w.lower() != dn.lower(),
                      "L(compiled for an xn-- host) & 'xn--'.* - {the literal identifier}")
            if left.lower().startswith("xn--"):
                lit_ = ci(dn)
                lemma("%r (%s): a wildcard inside an A-label is not expanded" % (dn, tag), z3.Intersect(L, z3.Complement(lit_)),
                      lambda w, dn=dn: bool(M._dnsname_match(dn, w)) and w.lower() != dn.lower(),
                      "L(compiled) - {the literal identifier}")
    return out


def JOBS(tier):
    quick = tier == "quick"
    t = 170 if quick else 900
    jobs = []
    san_lists = [[("DNS", d)] for d in DN_POOL]
    san_lists += [[("DNS", "x.y"), ("DNS", "*.b")], [("DNS", "*.b"), ("DNS", "a.*.b")], [("IP Address", "1.2.3.4"), ("DNS", "*.b")],
                  [("IP Address", "1.2.3.4")], [], [("DNS", "a.b"), ("DNS", "A.B"), ("DNS", "*.a.b")], [("email", "a.b")]]
    for sl in san_lists:
        jobs.append({"func": "c08_dns", "timeout": t, "path_timeout": 60, "samples": 1,
                     "part": {"sans": [list(x) for x in sl], "maxlabels": 2 if quick else 3, "dots": True,
                              "multi": len(sl) > 1, "hl": list(range(len(HOST_LABELS))),
                              "cns": [-1, 0, 1] if (not sl or sl[0][0] != "DNS") else [-1, 1]}})
    jobs.append({"func": "c08_ip", "timeout": t, "part": {}})
    jobs.append({"func": "c08_pin", "timeout": t, "samples": 1, "part": {
        "ops": list(range(9)), "iis": list(range(0, 64, 3)) + [63] if quick else list(range(64)),
        "cs": [0, 9, 15] if quick else list(range(16)), "ns": [0, 1, 31, 32, 33, 39, 40, 41, 63] if quick else list(range(64))}})
    return jobs


EVIDENCE = {
    "bounds": {"quick": "E2: hostnames of any length for the 15 wildcard patterns of the pool x {host starts with xn-- or not}; E1: 27 SAN "
                        "lists (every pattern of the pool alone, pairs, IP+DNS, none, 3 entries, foreign kinds) x hostnames of 1-2 labels "
                        "from the 11-label pool, with and without trailing dot x entry order x commonName on/off and three commonName values; 15 IP host spellings x 9 "
                        "IP SAN spellings x DNS decoys x both entry points; pins: 3 certificates x 3 digests x 9 edit operations at every third position / 3 hex digits / 9 lengths (all of them in thorough); every point one solver model of a single index variable",
               "thorough": "hostnames of 1-3 labels, trailing dots"},
    "outside": ["labels outside the pool in E1 (E2 lemmas quantify over all hostnames)", "non-ASCII hostnames (EITHER)",
                "OpenSSL's own matching (C07)"],
    "stubs": ["the module's `re` is replaced by a recorder only to capture the compiled pattern (E2)"],
    "assumptions": ["partial-label wildcards (a*, *a, a*b), the bare '*', trailing dots: either outcome allowed (RFC 6125 leaves them open) "
                    "as long as no dot is crossed", "z3 characters end at U+2FFFF"],
}
