"""C13 — a cut-off or corrupt response is never presented as complete.

c13_cut     : pool-level.  The body wire of a concrete fixture is cut at a symbolic position c (peer delivers body[:c], then
              EOF), read with a symbolic read pattern (kind, amount) or preloaded; then a second request goes out on the same
              pool.  Asserts: when the framing / coding makes the cut detectable, some read call (or urlopen when preloading)
              raises ProtocolError (incl. IncompleteRead, InvalidChunkLength) or DecodeError — never a normal end after fewer
              bytes than the payload, never a foreign exception; bytes delivered before the error are a prefix of the
              expected bytes; the socket that carried the response is closed and the second request used another socket.
c13_corrupt : one byte of the body wire replaced (position and new value symbolic): chunk-size lines and compressed streams.
c13_length  : Content-Length header sanity (_init_length) with symbolic integers rendered into the header.
"""
from __future__ import annotations

import http.client

from kit.h import P, run, mark, known, concretize, decode_point
from kit import net as N
from kit import env as E
from kit.fixtures import FIXTURES, BY_NAME

from urllib3.connectionpool import HTTPConnectionPool
from urllib3.exceptions import ProtocolError, DecodeError, HTTPError, InvalidHeader, IncompleteRead, InvalidChunkLength

R_READ, R_LOOP_READ, R_LOOP_READ1, R_LOOP_READINTO, R_STREAM, R_READ_CHUNKED, R_ITER, R_READ1_ALL, R_PRELOAD, R_DATA, R_DRAIN = range(11)
RNAMES = ["read()", "loop read(m)", "loop read1(m)", "loop readinto(m)", "stream(m)", "read_chunked(m)", "iter",
          "loop read1()", "preload_content=True", ".data", "drain_conn()"]

OK_BODY = b"second"


class CutPeer(N.BaseHandler):
    """First connection: header block, then the (cut / corrupted) body in seg-sized pieces, then EOF.
    Later connections: a complete small response."""

    def __init__(self, head, body, seg):
        self.head = head
        self.body = body
        self.seg = seg
        self.state = {}

    def on_read(self, sock):
        st = self.state.setdefault(sock.id, {"pos": -1, "req": 0})
        if sock.id == 0 and st["req"] == 0:
            if st["pos"] < 0:
                st["pos"] = 0
                return self.head
            if st["pos"] >= len(self.body):
                return b""
            piece = self.body[st["pos"]:st["pos"] + self.seg]
            st["pos"] += len(piece)
            return piece
        if st["pos"] < 0:
            st["pos"] = 0
            return N.response_bytes(200, "OK", body=OK_BODY)
        return b""

    def readable(self, sock):
        # poll(): after the cut the peer has closed -> EOF pending on the first connection
        st = self.state.get(sock.id)
        return bool(sock.id == 0 and st and st["pos"] >= len(self.body))


def _fail(msg):
    from kit import h
    h.INFO["why"] = msg
    return False


class Livelock(Exception):
    pass


def _guard(resp, limit):
    inner = resp._raw_read
    st = {"n": 0}

    def counted(*a, **kw):
        st["n"] += 1
        if st["n"] > limit:
            raise Livelock("more than %d raw reads: the read loop does not terminate" % limit)
        return inner(*a, **kw)
    resp._raw_read = counted


def consume(resp, rk, m, dc, limit):
    """Returns (pieces, ended_normally).  Exceptions propagate."""
    pieces = []
    if rk in (R_READ, R_PRELOAD):
        pieces.append(resp.read(decode_content=dc))
        return pieces
    if rk == R_DATA:
        pieces.append(resp.data)
        return pieces
    if rk in (R_LOOP_READ, R_LOOP_READ1, R_LOOP_READINTO, R_READ1_ALL):
        for _ in range(limit):
            if rk == R_LOOP_READ:
                p = resp.read(m, decode_content=dc)
            elif rk == R_LOOP_READ1:
                p = resp.read1(m, decode_content=dc)
            elif rk == R_READ1_ALL:
                p = resp.read1(decode_content=dc)
            else:
                buf = bytearray(m)
                k = resp.readinto(buf)
                p = bytes(buf[:k])
            if not p:
                return pieces
            pieces.append(p)
        raise Livelock("read loop did not end")
    if rk == R_STREAM:
        it = resp.stream(m, decode_content=dc)
    elif rk == R_READ_CHUNKED:
        it = resp.read_chunked(m, decode_content=dc)
    else:
        it = iter(resp)
    n = 0
    for p in it:
        n += 1
        if n > limit:
            raise Livelock("iteration did not end")
        pieces.append(p)
    return pieces


def must_detect_cut(fx, c, dc):
    """Is a cut after c body-wire bytes one the property obliges urllib3 to report?
    Content-Length: any cut short of the length.  Chunked: any cut before the terminating zero-size chunk line is complete
    (once the '0' of the zero-size chunk has arrived every payload byte has been delivered; a missing CRLF after it is
    tolerated by the property's wording 'before the terminating zero-size chunk').  Close-delimited: framing cannot tell; only an incomplete zstd
    stream (decoding on) must be reported."""
    if fx.framing == "cl":
        return c < len(fx.body)
    if fx.framing == "chunked":
        term = fx.body.rfind(b"0\r\n\r\n")
        return c <= term
    if dc and fx.coding in ("zstd", "zstd2"):
        # incomplete = cut strictly inside a frame (a cut exactly between two frames is a complete stream)
        return c < len(fx.body) and not _zstd_frame_boundary(fx, c)
    return False


def _zstd_frame_boundary(fx, c):
    if c == 0:
        return True
    from kit.fixtures import zstd_
    h = len(fx.payload) // 2
    return fx.coding == "zstd2" and c == len(zstd_(fx.payload[:h]))


def _cut_body(c, seg, dc, rk, m):
    fx = BY_NAME[P.fixture]
    body = fx.body[:c]
    return _scenario(fx, body, seg, dc, rk, m, must_detect_cut(fx, c, dc), "cut at %d/%d" % (c, len(fx.body)))


def _scenario(fx, body, seg, dc, rk, m, must_raise, what, checksummed_only=False, corrupt=False):
    exp = fx.expected(dc)
    peer = CutPeer(fx.head, body, seg)
    netw = N.install(peer)
    E.install_clock()
    try:
        pool = HTTPConnectionPool("h", 80, maxsize=1, block=True)
        preload = rk in (R_PRELOAD, R_DATA) and rk == R_PRELOAD
        raised = None
        pieces = []
        resp = None

        def first():
            return pool.urlopen("GET", "/", preload_content=preload, decode_content=dc, retries=False)
        try:
            resp = first()
        except HTTPError as e:
            raised = e
        if resp is not None and not preload:
            _guard(resp, len(fx.body) * 3 + 80)
            try:
                if rk == R_DRAIN:
                    resp.drain_conn()
                    pieces = None
                else:
                    pieces = consume(resp, rk, m, dc, len(exp) + len(fx.body) + 8)
            except HTTPError as e:
                raised = e
        elif resp is not None:
            pieces = [resp.data]
        # ---- verdict on the first response ----
        if raised is not None:
            mark("raised")
            if not isinstance(raised, (ProtocolError, DecodeError)):
                return _fail("%s: raised %r, not ProtocolError/IncompleteRead/DecodeError | %s" % (what, raised, RNAMES[rk]))
        else:
            mark("normal end")
            if rk == R_DRAIN:
                pass      # drain_conn discards data and errors by contract; only the connection clause applies
            else:
                got = b"".join(pieces)
                if must_raise:
                    return _fail("%s: %s ended normally with %d of %d bytes" % (what, RNAMES[rk], len(got), len(exp)))
                if checksummed_only and got != exp:
                    return _fail("%s: %s ended normally with wrong bytes %r" % (what, RNAMES[rk], got[:40]))
        # bytes delivered before an error / the end are a prefix of the expected bytes (cuts only: a corrupted stream may
        # decode to different bytes before the decoder notices)
        if pieces and not checksummed_only and not corrupt and P.get("prefix_check", True):
            got = b"".join(pieces)
            if exp[:len(got)] != got:
                return _fail("%s: delivered %r which is not a prefix of %r" % (what, got, exp))
        # ---- the connection that carried a broken response is closed and never reused ----
        broken = raised is not None or must_raise
        if not broken:
            return True
        s0 = netw.socks[0]
        if resp is not None:
            resp.release_conn()
        r2 = None
        try:
            r2 = pool.urlopen("GET", "/second", retries=False)
        except HTTPError as e:
            if broken:
                return _fail("%s: second request failed: %r" % (what, e))
        if broken:
            if len(netw.socks) < 2:
                return _fail("%s: second request reused the connection of the broken response (%s)" % (what, RNAMES[rk]))
            if not s0.closed:
                return _fail("%s: socket of the broken response still open after the error" % what)
            if r2 is not None and r2.data != OK_BODY:
                return _fail("%s: second response body %r" % (what, r2.data))
            mark("second request on a new socket")
        return True
    finally:
        N.uninstall()
        E.uninstall_clock()


def _rkm(part):
    return [(rk, m) for rk in part["rks"] for m in (range(1, part["mmax"] + 1) if rk in (1, 2, 3, 4, 5) else [1])]


def cut_dims(part):
    return [list(range(part["cmin"], part["cmax"] + 1)), part["segs"], part["dcs"], _rkm(part)]


def _cut_point(idx):
    c, seg, dc, (rk, m) = decode_point(idx, cut_dims)
    if rk == R_ITER and not dc:
        return True
    return N._untraced(_cut_body)(c, seg, dc, rk, m)


def c13_cut(idx: int) -> bool:
    """
    pre: 0 <= idx < P.n
    post: _
    """
    return run(_cut_point, idx)


def _corrupt_body(i, v, seg, dc, rk, m):
    fx = BY_NAME[P.fixture]
    pos = P.positions[i]
    old = fx.body[pos]
    new = P.vals[v]
    if new == old:
        return True
    body = fx.body[:pos] + bytes([new]) + fx.body[pos + 1:]
    in_size_line = P.kind == "chunkline"
    must = False
    if in_size_line:
        # a chunk-size line that is no longer hex digits (optionally followed by ';ext') is malformed
        hexd = b"0123456789abcdefABCDEF"
        must = new not in hexd and new not in b"; \t" and not _in_ext(fx.body, pos)
    if in_size_line:
        return _scenario_sizeline(fx, body, seg, dc, rk, m, must, "size-line byte %d: %#x -> %#x" % (pos, old, new))
    # corrupted compressed stream: an independent decoder (plain zlib / zstandard, one shot) decides whether the stream is
    # UNDECODABLE (must raise) or still decodes to something / is merely incomplete (either outcome; zstd incomplete must raise)
    must = dc and ref_undecodable(fx.coding, body)
    return _scenario(fx, body, seg, dc, rk, m, must, "byte %d: %#x -> %#x" % (pos, old, new), checksummed_only=False, corrupt=True)


def ref_undecodable(coding, raw):
    import zlib
    if coding in ("gzip", "gzip2", "gzip_garbage"):
        d = zlib.decompressobj(16 + zlib.MAX_WBITS)
        try:
            d.decompress(raw)
            return False           # first member decodes (or is incomplete); later members / garbage are tolerated by design
        except zlib.error:
            return True
    if coding in ("deflate", "rawdeflate"):
        for wbits in (zlib.MAX_WBITS, -zlib.MAX_WBITS):
            try:
                zlib.decompressobj(wbits).decompress(raw)
                return False
            except zlib.error:
                continue
        return True
    if coding in ("zstd", "zstd2"):
        import zstandard
        data = raw
        try:
            while data:
                o = zstandard.ZstdDecompressor().decompressobj()
                o.decompress(data)
                if not o.eof:
                    return True    # incomplete
                data = o.unused_data
            return False
        except zstandard.ZstdError:
            return True
    return False


def _in_ext(body, pos):
    ls = body.rfind(b"\r\n", 0, pos) + 2 if body.rfind(b"\r\n", 0, pos) >= 0 else 0
    return b";" in body[ls:pos]


def _scenario_sizeline(fx, body, seg, dc, rk, m, must, what):
    P["prefix_check"] = False
    return _scenario(fx, body, seg, dc, rk, m, must, what)


def inner_dims(part):
    fx = BY_NAME[part["fixture"]]
    return [list(range(len(fx.raw))), part["segs"], _rkm(part)]


def _inner_point(idx):
    k, seg, (rk, m) = decode_point(idx, inner_dims)
    return N._untraced(_inner_body)(k, seg, rk, m)


def _inner_body(k, seg, rk, m):
    """The FRAMING is intact (right Content-Length / complete chunked body) but the compressed stream inside it stops after k
    bytes: for zstd an incomplete stream must raise DecodeError whatever the read pattern; gzip/deflate: either outcome."""
    from kit.fixtures import frame, CODING_HEADER
    fx = BY_NAME[P.fixture]
    raw = fx.raw[:k]
    ce = CODING_HEADER[fx.coding]
    head, body = frame(fx.framing, raw, fx.chunks, ["Content-Encoding: " + ce] if ce else [])

    class _F:
        pass
    f2 = _F()
    f2.head, f2.body, f2.framing, f2.coding, f2.payload, f2.raw = head, body, fx.framing, fx.coding, fx.payload, raw
    f2.expected = lambda dc: fx.payload
    must = ref_undecodable(fx.coding, raw) and fx.coding in ("zstd", "zstd2")
    return _scenario(f2, body, seg, True, rk, m, must, "compressed stream stops after %d/%d bytes inside intact %s framing"
                     % (k, len(fx.raw), fx.framing), corrupt=True)


def c13_inner(idx: int) -> bool:
    """
    pre: 0 <= idx < P.n
    post: _
    """
    return run(_inner_point, idx)


def corrupt_dims(part):
    return [list(range(len(part["positions"]))), list(range(len(part["vals"]))), part["segs"], part["dcs"], _rkm(part)]


def _corrupt_point(idx):
    i, v, seg, dc, (rk, m) = decode_point(idx, corrupt_dims)
    if rk == R_ITER and not dc:
        return True
    return N._untraced(_corrupt_body)(i, v, seg, dc, rk, m)


def c13_corrupt(idx: int) -> bool:
    """
    pre: 0 <= idx < P.n
    post: _
    """
    return run(_corrupt_point, idx)


# ---- Content-Length header sanity ---------------------------------------------------------------------------------

def _length_body(form, n, mm, chunked, status_i, head):
    from urllib3.connection import HTTPConnection
    status = [200, 204, 304, 206][status_i]
    payload = b"0123456789"[:n] if n <= 10 else b"0123456789"
    texts = {0: "%d" % n, 1: "%d, %d" % (n, n), 2: "%d, %d" % (n, mm), 3: "-%d" % (n + 1), 4: "abc", 5: None, 6: "%d,%d,%d" % (n, n, mm)}
    cl = texts[form]
    conflicting = form in (2, 6) and mm != n
    hs = ["HTTP/1.1 %d X" % status]
    if cl is not None:
        hs.append("Content-Length: " + cl)
    if chunked:
        hs.append("Transfer-Encoding: chunked")
        body = (b"%x\r\n%b\r\n" % (len(payload), payload) if payload else b"") + b"0\r\n\r\n"
    else:
        body = payload
    headb = ("\r\n".join(hs) + "\r\n\r\n").encode()
    from harness.c12 import BodyPeer
    peer = BodyPeer(headb, body, 64)
    N.install(peer)
    try:
        conn = HTTPConnection("h", 80)
        method = "HEAD" if head else "GET"
        raised = None
        resp = None
        try:
            conn.request(method, "/", preload_content=False)
            resp = conn.getresponse()
        except HTTPError as e:
            raised = e
        except http.client.HTTPException as e:
            # http.client itself refuses some header blocks before urllib3 sees them: nothing was delivered
            mark("http.client refused")
            return True
        # with Transfer-Encoding: chunked http.client's own chunk reader decides (it reads a chunked body even on 204/304):
        # outside urllib3, not asserted
        bodyless = head or (status in (204, 304) and not chunked)
        if conflicting and not chunked:
            if not isinstance(raised, InvalidHeader):
                return _fail("Content-Length %r accepted (raised=%r)" % (cl, raised))
            mark("InvalidHeader")
            return True
        if raised is not None:
            return _fail("Content-Length %r, chunked=%s: unexpected %r" % (cl, chunked, raised))
        try:
            data = resp.read()
        except HTTPError as e:
            data = e
        if bodyless:
            if data != b"":
                return _fail("body-less response (%s %d) delivered %r" % (method, status, data))
            mark("bodyless")
            return True
        if chunked:
            if data != payload:
                return _fail("chunked framing must decide: got %r" % (data,))
            mark("chunked wins")
            return True
        if form in (0, 1):
            if data != payload:
                return _fail("CL %r: got %r" % (cl, data))
            mark("plain")
        return True
    finally:
        N.uninstall()


def length_dims(part):
    r = list(range(part["nmax"] + 1))
    return [list(range(7)), r, r, [False, True], [0, 1, 2, 3], [False, True]]


def _length_point(idx):
    return N._untraced(_length_body)(*decode_point(idx, length_dims))


def c13_length(idx: int) -> bool:
    """
    pre: 0 <= idx < P.n
    post: _
    """
    return run(_length_point, idx)


DIMS = {"c13_inner": inner_dims, "c13_cut": cut_dims, "c13_corrupt": corrupt_dims, "c13_length": length_dims}


QUICK_FIX = ["cl/identity/5", "chunked/identity/5/1-2", "cl/gzip/17", "chunked/gzip/17/5", "chunked/zstd2/17/3-11", "close/zstd/17",
             "close/deflate/17", "cl/zstd2/17", "cl/identity/0", "chunked/identity/0", "cl/gzip2/17", "cl/deflate,gzip/17"]


def JOBS(tier):
    quick = tier == "quick"
    t = 170 if quick else 900
    jobs = []
    for fx in FIXTURES:
        if quick and fx.name not in QUICK_FIX:
            continue
        W = len(fx.body)
        chunked = fx.framing == "chunked"
        rks = [R_READ, R_LOOP_READ, R_LOOP_READ1, R_LOOP_READINTO, R_STREAM, R_ITER, R_READ1_ALL, R_PRELOAD, R_DATA, R_DRAIN] + \
              ([R_READ_CHUNKED] if chunked else [])
        dcs = [True, False] if fx.coding != "identity" else [True]
        segs = [1, W + 1]
        nparts = 1 if quick else 2
        step = (W + 1 + nparts - 1) // nparts
        lo = 0
        while lo <= W:
            hi = min(W, lo + step - 1)
            jobs.append({"func": "c13_cut", "timeout": t, "path_timeout": 60, "samples": 1,
                         "part": {"fixture": fx.name, "cmin": lo, "cmax": hi, "segs": segs, "dcs": dcs, "rks": rks, "mmax": 2 if quick else 3}})
            lo = hi + 1
        if chunked:
            pos = _size_line_positions(fx.body)
            vals = [ord("g"), ord("-"), ord(" "), 0, ord("f"), ord("1"), 10, ord(";")]
            jobs.append({"func": "c13_corrupt", "timeout": t, "path_timeout": 60, "samples": 1,
                         "part": {"fixture": fx.name, "kind": "chunkline", "positions": pos if not quick else pos[:8],
                                  "vals": vals, "segs": segs, "dcs": dcs[:1], "rks": rks, "mmax": 2}})
        if fx.coding != "identity" and fx.framing == "cl":
            R = len(fx.raw)
            pos = list(range(R)) if not quick else sorted(set(list(range(0, R, 2)) + [R - 1]))
            jobs.append({"func": "c13_corrupt", "timeout": t, "path_timeout": 60, "samples": 1,
                         "part": {"fixture": fx.name, "kind": "stream", "positions": pos, "vals": [0x00, 0xFF, 0x41] if not quick else [0xFF, 0x41],
                                  "segs": segs, "dcs": [True], "rks": rks, "mmax": 2}})
    for name in ("chunked/zstd2/17/3-11", "cl/zstd2/17", "close/zstd/17", "chunked/gzip/17/5") + (() if quick else ("chunked/zstd/40/16", "cl/zstd/17", "cl/gzip/17")):
        fx = BY_NAME[name]
        rks = [R_READ, R_LOOP_READ, R_LOOP_READ1, R_LOOP_READINTO, R_STREAM, R_ITER, R_READ1_ALL, R_PRELOAD, R_DATA] + \
              ([R_READ_CHUNKED] if fx.framing == "chunked" else [])
        jobs.append({"func": "c13_inner", "timeout": t, "path_timeout": 60, "samples": 1,
                     "part": {"fixture": name, "segs": [1, len(fx.body) + 1], "rks": rks, "mmax": 2}})
    jobs.append({"func": "c13_length", "timeout": t, "part": {"nmax": 3 if quick else 12}})
    return jobs


def _size_line_positions(body):
    """Byte positions inside chunk-size lines (digits and the CR/LF that end them)."""
    pos = []
    p = 0
    while p < len(body):
        e = body.find(b"\r\n", p)
        if e < 0:
            break
        line = body[p:e]
        semi = line.find(b";")
        digits_end = p + (semi if semi >= 0 else len(line))
        pos.extend(range(p, digits_end))
        sz = int(line.split(b";")[0], 16)
        if sz == 0:
            break
        p = e + 2 + sz + 2
    return pos


EVIDENCE = {
    "bounds": {"quick": "12 fixtures (identity/gzip/2-member gzip/zlib/zstd/2-frame zstd/stack x Content-Length/chunked/close-delimited, 0-17 byte "
                        "payloads): EVERY cut position of the body wire x segmentation {1, whole} x 10-11 read patterns (m<=2) incl. "
                        "preload/.data/drain x decode on/off, each broken response followed by a second request on the same pool; single-byte "
                        "corruption of chunk-size lines (8 values x 8 positions) and of every other byte of each coded Content-Length stream; "
                        "a compressed stream that stops early inside intact framing (every length, 4 fixtures); Content-Length header forms with n, m <= 3; every point one solver model of a single index variable",
               "thorough": "all 31 fixtures, every cut, segmentations {1,whole}, decode on/off, all size-line positions x 8 values, every "
                           "stream byte x {0x00,0xFF,0x41}, header integers <= 12"},
    "outside": ["payloads > 40 bytes", "the codecs (C)", "cuts inside the status line / header block (C01, C03 cover those faults)",
                "multi-byte corruptions"],
    "stubs": ["urllib3.util.connection.create_connection -> MemSock", "wait_for_read -> EOF pending after the cut",
              "clock constant", "logging disabled", "the first urlopen (concrete inputs) runs outside the tracer when not preloading"],
    "assumptions": ["gzip/zlib carry a checksum: a corrupted stream that still ends normally must have produced the right bytes; raw "
                    "deflate and zstd without checksum may decode to other bytes (not 'undecodable')",
                    "a chunked body is complete once the zero-size chunk line has been received"],
}
