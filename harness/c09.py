"""C09 — proxied traffic follows the documented routing and never leaks outside it.

c09_route : ProxyManager over an in-memory proxy that, after answering CONNECT with 200, hands the byte stream to the origin —
            so "what the proxy parsed" and "what the origin parsed" are separated by construction; TLS legs are the contract
            stub of kit/tls.py (the real _ssl_wrap_socket_and_match_hostname / _connect_tls_proxy / _prepare_proxy / _tunnel run).
            One solver variable enumerates the routing configuration: CONNECT reply {200,403,407,502,garbage,EOF} x proxy
            certificate ok/bad x origin certificate ok/bad x destination host form {name, IPv4, [v6], [v6%25zone]} x explicit/
            default port x proxy_headers x caller Host header x 1-2 requests x tunnel closed in between; partitioned by
            (proxy scheme, destination scheme, use_forwarding_for_https).
c09_table : connection_requires_http_tunnel truth table with symbolic arguments.
"""
from __future__ import annotations

from kit.h import P, run, mark, known, decode_point, space_size
from kit import net as N
from kit import env as E
from kit import tls as T

import urllib3
from urllib3 import ProxyManager
from urllib3.exceptions import HTTPError, SSLError, MaxRetryError, ProxyError
from urllib3.util.proxy import connection_requires_http_tunnel
from urllib3.util.url import parse_url
from urllib3.connection import ProxyConfig

HOSTS = [("dest.example", "dest.example"), ("10.1.2.3", "10.1.2.3"), ("[2001:db8::1]", "2001:db8::1"),
         ("[fe80::1%25eth0]", "fe80::1")]
REPLIES = ["200", "403", "407", "502", "garbage", "eof"]
PROXY_HEADERS = {"Proxy-Authorization": "Basic c2VjcmV0", "X-Proxy-Token": "tok"}


def _fail(msg):
    from kit import h
    h.INFO["why"] = msg
    return False


class ProxyPeer(N.BaseHandler):
    def __init__(self, reply, close_after_first, redirect_forwarded_to=None):
        self.reply = reply
        self.close_after_first = close_after_first
        self.redirect_forwarded_to = redirect_forwarded_to
        self.state = {}
        self.msgs = []        # (sock id, party, head bytes)

    def _st(self, sock):
        return self.state.setdefault(sock.id, {"got": b"", "pos": 0, "queue": [], "eof": False, "served": 0})

    def on_send(self, sock, data):
        st = self._st(sock)
        st["got"] += data
        while True:
            buf = st["got"][st["pos"]:]
            end = buf.find(b"\r\n\r\n")
            if end < 0:
                break
            head = buf[:end]
            st["pos"] += end + 4
            tunnelled = getattr(sock, "tunnel_established", False)
            if head.startswith(b"CONNECT ") and not tunnelled:
                self.msgs.append((sock.id, "proxy", head))
                r = self.reply
                if r == "200":
                    sock.tunnel_established = True
                    sock.tunnel_target = head.split(b" ")[1].rsplit(b":", 1)[0].decode().strip("[]")
                    st["queue"].append(b"HTTP/1.0 200 Connection established\r\nVia: p\r\n\r\n")
                elif r in ("403", "407", "502"):
                    st["queue"].append(b"HTTP/1.0 %s Nope\r\nContent-Length: 0\r\n\r\n" % r.encode())
                    st["queue"].append(b"")
                elif r == "garbage":
                    st["queue"].append(b"\x16\x03\x01 not http\r\n\r\n")
                    st["queue"].append(b"")
                else:
                    st["queue"].append(b"")
            else:
                self.msgs.append((sock.id, "origin" if tunnelled else "proxy", head))
                st["served"] += 1
                if self.redirect_forwarded_to and not tunnelled:
                    st["queue"].append(N.response_bytes(302, "Found", headers=[("Location", self.redirect_forwarded_to)], body=b""))
                else:
                    st["queue"].append(N.response_bytes(200, "OK", body=b"ok"))
                if self.close_after_first and st["served"] == 1:
                    st["queue"].append(b"")

    def on_read(self, sock):
        st = self._st(sock)
        if st["eof"]:
            return b""
        if st["queue"]:
            seg = st["queue"].pop(0)
            if seg == b"":
                st["eof"] = True
            return seg
        return b""

    def readable(self, sock):
        st = self._st(sock)
        return bool(st["queue"]) or st["eof"]


def dims_of(part):
    tunnel = part["dest_https"] and not (part["proxy_https"] and part["forwarding"])
    return [REPLIES if tunnel else ["200"],
            [True, False] if part["proxy_https"] else [True],
            [True, False] if (tunnel) else [True],
            part["hosts"], [None, 8443], [False, True], [False, True], [1, 2], [False, True]]


def _route_body(idx):
    reply, proxy_ok, origin_ok, host_i, port, with_ph, caller_host, nreq, close_between = decode_point(idx, dims_of)
    return N._untraced(_route)(P.proxy_https, P.dest_https, P.forwarding, reply, proxy_ok, origin_ok, host_i, port, with_ph,
                               caller_host, nreq, close_between)


def _route(proxy_https, dest_https, forwarding, reply, proxy_ok, origin_ok, host_i, port, with_ph, caller_host, nreq, close_between):
    url_host, bare = HOSTS[host_i]
    dscheme = "https" if dest_https else "http"
    dport = port if port is not None else (443 if dest_https else 80)
    tunnel = dest_https and not (proxy_https and forwarding)          # the documented table
    is_ip = host_i in (1, 2, 3)
    origin_cert = T.Cert("default" if origin_ok else "unknown", (("IP Address", bare),) if is_ip else (("DNS", bare),))
    proxy_cert = T.Cert("default" if proxy_ok else "unknown", (("DNS", "proxy.example"),))
    script = T.Script({("tunnel", None): origin_cert, "proxy.example": proxy_cert}, proxy_cert)
    peer = ProxyPeer(reply, close_between)
    netw = N.install(peer)
    E.install_clock()
    T.install(script, "ssl", True)
    try:
        pm = ProxyManager(("https" if proxy_https else "http") + "://proxy.example:3128",
                          proxy_headers=dict(PROXY_HEADERS) if with_ph else None, use_forwarding_for_https=forwarding)
        url = "%s://%s%s/p/a?q=1" % (dscheme, url_host, (":%d" % port) if port is not None else "")
        headers = {"X-App": "1", "Authorization": "app-secret"}
        if caller_host:
            headers["Host"] = "virtual.example"
        outcomes = []
        for i in range(nreq):
            try:
                r = pm.request("GET", url, headers=dict(headers), retries=False)
                outcomes.append(r.status)
            except HTTPError as e:
                outcomes.append(e)
        # ---- every dial goes to the proxy ----
        for d in netw.dials:
            if d[0] != ("proxy.example", 3128):
                return _fail("dialled %r instead of the proxy" % (d[0],))
        proxy_msgs = [m for m in peer.msgs if m[1] == "proxy"]
        origin_msgs = [m for m in peer.msgs if m[1] == "origin"]
        ph_names = [k.lower().encode() for k in PROXY_HEADERS]

        def fields(head):
            return [(ln.split(b":", 1)[0].strip().lower(), ln.split(b":", 1)[1].strip()) for ln in head.split(b"\r\n")[1:] if b":" in ln]
        # ---- proxy headers never inside a tunnel ----
        for sid, party, head in origin_msgs:
            for n, v in fields(head):
                if n in ph_names:
                    return _fail("proxy header %r reached the origin inside the tunnel: %r" % (n, head[:200]))
        hostport = url_host if port is None else "%s:%d" % (url_host, port)
        want_host_hdr = b"virtual.example" if caller_host else None
        if tunnel:
            # proxy leg must be up first
            proxy_leg_fails = proxy_https and not proxy_ok
            for sid, party, head in proxy_msgs:
                rl = head.split(b"\r\n")[0]
                if not rl.startswith(b"CONNECT "):
                    return _fail("https destination: the proxy was sent %r instead of CONNECT" % (rl,))
                target = rl.split(b" ")[1].decode()
                th, tp = target.rsplit(":", 1)
                if int(tp) != dport:
                    return _fail("CONNECT to port %s, URL says %d" % (tp, dport))
                if host_i in (2, 3) and not (th.startswith("[") and th.endswith("]")):
                    return _fail("CONNECT target %r: IPv6 literal must keep its brackets" % (th,))
                if host_i in (0, 1, 2) and th.lower() != url_host.lower():
                    return _fail("CONNECT target host %r, URL host is %r" % (th, url_host))
                if host_i == 3 and not th.lower().startswith("[fe80::1"):
                    return _fail("CONNECT target host %r, URL host is %r" % (th, url_host))
                got_ph = [n for n, v in fields(head) if n in ph_names]
                if with_ph and sorted(got_ph) != sorted(ph_names):
                    return _fail("CONNECT lacks the proxy headers: %r" % (head,))
                for n, v in fields(head):
                    if n in (b"authorization", b"x-app"):
                        return _fail("request header %r leaked into CONNECT: %r" % (n, head))
            if proxy_leg_fails:
                if peer.msgs:
                    return _fail("proxy certificate invalid but %d messages were sent" % len(peer.msgs))
                return _expect_error(outcomes, (SSLError, ProxyError), "proxy leg verification failed")
            if reply != "200":
                if origin_msgs:
                    return _fail("CONNECT answered %s but the origin was contacted" % reply)
                for s in netw.socks:
                    st = peer.state.get(s.id)
                    if st and len(st["got"]) > st["pos"] and not getattr(s, "tunnel_established", False):
                        return _fail("bytes written after the refused CONNECT: %r" % (st["got"][st["pos"]:][:80],))
                mark("CONNECT refused")
                if reply in ("garbage", "eof"):
                    # not an HTTP refusal: the proxy answered with something that is not HTTP / nothing; any urllib3 error will do
                    return _expect_error(outcomes, (HTTPError,), "CONNECT answered with %s" % reply)
                return _expect_error(outcomes, (ProxyError,), "CONNECT refused with %s" % reply)
            if not origin_ok:
                if origin_msgs:
                    return _fail("origin certificate invalid but a request was sent into the tunnel")
                mark("origin cert refused")
                return _expect_error(outcomes, (SSLError,), "origin verification failed")
            # success path: TLS asked for the destination's name, request in origin-form
            for s in netw.socks:
                layers = getattr(s, "tls_layers", [])
                want_layers = 2 if proxy_https else 1
                if getattr(s, "tunnel_established", False):
                    if len(layers) != want_layers:
                        return _fail("%d TLS layers on a tunnelled connection, expected %d" % (len(layers), want_layers))
                    if layers[-1]["server_hostname"] != bare:
                        return _fail("TLS inside the tunnel verified %r, destination is %r" % (layers[-1]["server_hostname"], bare))
                    if proxy_https and layers[0]["server_hostname"] != "proxy.example":
                        return _fail("proxy leg verified %r" % (layers[0]["server_hostname"],))
            if len(origin_msgs) != nreq:
                return _fail("%d requests reached the origin, %d were made (outcomes %r)" % (len(origin_msgs), nreq, outcomes))
            for sid, party, head in origin_msgs:
                rl = head.split(b"\r\n")[0]
                if rl != b"GET /p/a?q=1 HTTP/1.1":
                    return _fail("request inside the tunnel must be origin-form, got %r" % (rl,))
                hv = [v for n, v in fields(head) if n == b"host"]
                exp = want_host_hdr or _host_header(url_host, port, dest_https)
                if hv != [exp]:
                    # known finding F20: bracketed tunnel host wrapped in brackets again by http.client's Host logic
                    if host_i in (2, 3) and not caller_host and len(hv) == 1 and hv[0].startswith(b"[[") and known("F20"):
                        continue
                    return _fail("Host inside the tunnel %r, expected %r" % (hv, exp))
            # re-tunnelling
            sids = [m[0] for m in origin_msgs]
            connects = [m[0] for m in proxy_msgs]
            if nreq == 2:
                if close_between:
                    if len(set(sids)) != 2 or len(connects) != 2:
                        return _fail("tunnel was closed between the requests but no new CONNECT on a new socket (sockets %r, CONNECTs %r)"
                                     % (sids, connects))
                    mark("re-tunnelled")
                elif len(set(sids)) != 1 or len(connects) != 1:
                    return _fail("keep-alive tunnel not reused: sockets %r CONNECTs %r" % (sids, connects))
            if any(not isinstance(o, int) for o in outcomes):
                return _fail("tunnel fine but outcome %r" % (outcomes,))
            mark("tunnelled")
            return True
        # ---- forwarding ----
        if origin_msgs or any(getattr(s, "tunnel_established", False) for s in netw.socks):
            return _fail("a tunnel was opened although the table says forward")
        if proxy_https and not proxy_ok:
            if peer.msgs:
                return _fail("proxy certificate invalid but the request was forwarded")
            return _expect_error(outcomes, (SSLError, ProxyError), "proxy verification failed")
        if len(proxy_msgs) != nreq:
            return _fail("%d forwarded requests for %d calls (%r)" % (len(proxy_msgs), nreq, outcomes))
        for sid, party, head in proxy_msgs:
            rl = head.split(b"\r\n")[0]
            want = ("GET %s://%s%s/p/a?q=1 HTTP/1.1" % (dscheme, _norm_host(url_host), (":%d" % port) if port is not None else "")).encode()
            if rl.lower() != want.lower():
                return _fail("forwarded request line %r, expected absolute-form %r" % (rl, want))
            hv = [v for n, v in fields(head) if n == b"host"]
            exp = want_host_hdr or _host_header(url_host, port, dest_https)
            if len(hv) != 1 or hv[0].lower() != exp.lower():
                return _fail("Host %r in the forwarded request, expected %r" % (hv, exp))
            got_ph = [n for n, v in fields(head) if n in ph_names]
            if with_ph and sorted(got_ph) != sorted(ph_names):
                return _fail("forwarded request lacks the proxy headers: %r" % (head,))
        for s in netw.socks:
            layers = getattr(s, "tls_layers", [])
            if len(layers) != (1 if proxy_https else 0):
                return _fail("%d TLS layers on a forwarding connection" % len(layers))
            if proxy_https and layers[0]["server_hostname"] != "proxy.example":
                return _fail("proxy leg verified %r" % (layers[0]["server_hostname"],))
        mark("forwarded")
        return True
    finally:
        T.uninstall()
        N.uninstall()
        E.uninstall_clock()


def _norm_host(h):
    return h.replace("%25", "%") if h.startswith("[") else h


def _host_header(url_host, port, https):
    h = _norm_host(url_host)
    return (h if port is None else "%s:%d" % (h, port)).encode()


def _expect_error(outcomes, classes, what):
    for o in outcomes:
        root = o
        while isinstance(root, MaxRetryError) and root.reason is not None:
            root = root.reason
        if isinstance(o, int):
            return _fail("%s but the request returned %r" % (what, o))
        ok = isinstance(root, classes) or (isinstance(root, ProxyError) and isinstance(getattr(root, "original_error", None), classes + (OSError,)))
        if not ok:
            return _fail("%s: expected %s, got %r" % (what, "/".join(c.__name__ for c in classes), o))
    return True


def _special_body(idx):
    scenario, variant, origin_name_ok, pin_kind = decode_point(idx, [[0, 1], [0, 1, 2], [True, False], [0, 1]])
    return N._untraced(_special)(scenario, variant, origin_name_ok, pin_kind)


def _special(scenario, variant, origin_name_ok, pin_kind):
    """Scenario 0: forwarded http request redirected to an https URL: the tunnelled follow-up must not carry proxy headers
    (per-request header mapping, three redirect policies).  Scenario 1: ONE SSLContext object serves as proxy_ssl_context and
    ssl_context while the proxy is checked by proxy_assert_hostname / fingerprint: the origin leg must still check the name."""
    import hashlib
    der = b"der-bytes"
    origin_cert = T.Cert("default", (("DNS", "dest.example" if origin_name_ok else "evil.test"),), None, der)
    proxy_cert = T.Cert("default", (("DNS", "proxy.example"),), None, der)
    script = T.Script({("tunnel", None): origin_cert, "proxy.example": proxy_cert}, proxy_cert)
    peer = ProxyPeer("200", False, "https://dest.example/next" if scenario == 0 else None)
    netw = N.install(peer)
    E.install_clock()
    Ctx = T.install(script, "ssl", True)
    try:
        ph_names = [k.lower().encode() for k in PROXY_HEADERS]
        exc = None
        if scenario == 0:
            if not origin_name_ok:
                return True
            retries = [None, urllib3.Retry(remove_headers_on_redirect=[]), urllib3.Retry(total=3, remove_headers_on_redirect=["X-App"])][variant]
            pm = ProxyManager(("https" if pin_kind else "http") + "://proxy.example:3128", proxy_headers=dict(PROXY_HEADERS))
            hdrs = {"X-App": "1"}
            kw = {"retries": retries} if retries is not None else {}
            try:
                r = pm.urlopen("GET", "http://first.example/start", headers=hdrs, **kw)
            except HTTPError as e:
                return _fail("redirect http -> https through the proxy failed: %r" % (e,))
            origin_msgs = [m for m in peer.msgs if m[1] == "origin"]
            if len(origin_msgs) != 1:
                return _fail("expected one tunnelled follow-up request, saw %d" % len(origin_msgs))
            for n, v in [(ln.split(b":", 1)[0].strip().lower(), ln) for ln in origin_msgs[0][2].split(b"\r\n")[1:] if b":" in ln]:
                if n in ph_names:
                    return _fail("after the redirect the tunnelled request carries proxy header %r: %r" % (n, v))
            if any(k.lower() in [x.decode() for x in ph_names] for k in hdrs):
                return _fail("the caller's header mapping was polluted with proxy headers: %r" % (hdrs,))
            mark("redirect into tunnel")
            return True
        ctx = Ctx()
        script.contexts.remove(ctx)
        ctx.cas.add("default")
        kwp = {"proxy_assert_hostname": "proxy.example"} if pin_kind == 0 else {"proxy_assert_fingerprint": hashlib.sha256(der).hexdigest()}
        same = variant != 2
        pm = ProxyManager("https://proxy.example:3128", proxy_ssl_context=ctx, ssl_context=ctx if same else None, **kwp)
        outcomes = []
        for i in range(1 + (variant == 1)):
            try:
                outcomes.append(pm.request("GET", "https://dest.example/secret", headers={"Authorization": "app"}, retries=False).status)
            except HTTPError as e:
                outcomes.append(e)
        origin_msgs = [m for m in peer.msgs if m[1] == "origin"]
        if origin_name_ok:
            if any(not isinstance(o, int) for o in outcomes):
                return _fail("valid origin certificate but %r" % (outcomes,))
            mark("shared context ok")
            return True
        if origin_msgs:
            return _fail("origin certificate is for another name but the request was sent into the tunnel (shared context=%s, %s)"
                         % (same, list(kwp)))
        mark("shared context refused")
        return _expect_error(outcomes, (SSLError,), "origin name mismatch")
    finally:
        T.uninstall()
        N.uninstall()
        E.uninstall_clock()


def c09_special(idx: int) -> bool:
    """
    pre: 0 <= idx < 24
    post: _
    """
    return run(_special_body, idx)


def c09_route(idx: int) -> bool:
    """
    pre: 0 <= idx < P.n
    post: _
    """
    return run(_route_body, idx)


def _table_body(pk, fwd_kind, dk):
    proxy = [None, "http://p:1", "https://p:1", "HTTPS://p:1", "socks5://p:1"][pk]
    purl = parse_url(proxy) if proxy else None
    cfg = [None, ProxyConfig(None, False, None, None), ProxyConfig(None, True, None, None)][fwd_kind]
    dest = [None, "http", "https", "ftp", "HTTP"][dk]
    got = connection_requires_http_tunnel(purl, cfg, dest)
    if purl is None:
        want = False
    elif dest == "http":
        want = False
    elif purl.scheme == "https" and fwd_kind == 2:
        want = False
    else:
        want = True
    if got is not want:
        return _fail("connection_requires_http_tunnel(%r, forwarding=%r, %r) = %r, documented %r" % (proxy, fwd_kind, dest, got, want))
    mark("tunnel" if want else "forward")
    return True


def c09_table(pk: int, fwd_kind: int, dk: int) -> bool:
    """
    pre: 0 <= pk <= 4 and 0 <= fwd_kind <= 2 and 0 <= dk <= 3
    post: _
    """
    return run(_table_body, pk, fwd_kind, dk)


DIMS = {"c09_route": dims_of}


def JOBS(tier):
    quick = tier == "quick"
    t = 170 if quick else 900
    jobs = []
    for proxy_https in (False, True):
        for dest_https in (False, True):
            for forwarding in (False, True):
                part = {"proxy_https": proxy_https, "dest_https": dest_https, "forwarding": forwarding,
                        "hosts": [0, 2] if quick else [0, 1, 2, 3]}
                part["n"] = space_size(dims_of(part))
                jobs.append({"func": "c09_route", "timeout": t, "path_timeout": 60, "samples": 1, "part": part})
    jobs.append({"func": "c09_table", "timeout": t, "part": {}})
    jobs.append({"func": "c09_special", "timeout": t, "part": {}})
    return jobs


EVIDENCE = {
    "bounds": {"quick": "8 routing cells (proxy http/https x destination http/https x use_forwarding_for_https) x CONNECT reply "
                        "{200,403,407,502,garbage,EOF} x proxy certificate ok/bad x origin certificate ok/bad x host {name, [IPv6]} x "
                        "default/explicit port x proxy_headers x caller Host x 1-2 requests x tunnel closed in between: every point "
                        "enumerated; truth table of connection_requires_http_tunnel over 5 proxy spellings x 3 configs x 4 schemes",
               "thorough": "+ IPv4 and zoned IPv6 hosts"},
    "outside": ["bytes inside TLS records (SSLTransport is replaced by the contract)", "SOCKS proxies (contrib)", "more than 2 requests"],
    "stubs": ["kit/tls.py contract for SSLContext / SSLTransport", "create_connection -> MemSock", "wait_for_read -> peer EOF pending",
              "clock constant", "logging disabled"],
    "assumptions": ["after answering CONNECT with 200 the in-memory proxy relays: later bytes on that socket are what the origin sees"],
}
