#!/bin/sh
# Offline setup: overlay venv on top of /venv with crosshair-tool + z3 from the wheelhouse.
set -e
cd "$(dirname "$0")"
if [ -x .venv/bin/python ] && .venv/bin/python -c "import crosshair, z3, urllib3" 2>/dev/null; then
  exit 0
fi
rm -rf .venv
/venv/bin/python -m venv .venv
SP=$(.venv/bin/python -c "import sysconfig; print(sysconfig.get_paths()['purelib'])")
printf "import site; site.addsitedir('/venv/lib/python3.12/site-packages')\n" > "$SP/_verif_overlay.pth"
PIP_NO_INDEX=1 .venv/bin/pip install -q --no-index --find-links /opt/veriftools/wheels crosshair-tool z3-solver >/dev/null
.venv/bin/python -c "import crosshair, z3, urllib3; print('setup ok', z3.get_version_string(), urllib3.__file__)"
