"""Environment stubs: clock and sleep inside urllib3.util.timeout / urllib3.util.retry."""
from __future__ import annotations

import urllib3.util.retry as _R
import urllib3.util.timeout as _T
import time as _time
import queue as _queue
import threading as _threading


class FakeTime:
    """Replaces the `time` module object inside util.timeout and util.retry.
    monotonic()/time() hand out scripted samples (last one repeats); sleep() is recorded."""

    def __init__(self, samples=(0,), wall=1_700_000_000):
        self.samples = list(samples)
        self.i = 0
        self.sleeps = []
        self.wall = wall

    def monotonic(self):
        v = self.samples[min(self.i, len(self.samples) - 1)]
        self.i += 1
        return v

    def time(self):
        return self.wall

    def sleep(self, s):
        self.sleeps.append(s)

    def __getattr__(self, name):
        return getattr(_time, name)


_saved = {}


def install_clock(fake=None) -> FakeTime:
    fake = fake or FakeTime()
    if not _saved:
        _saved["T"] = _T.time
        _saved["R"] = _R.time
        _saved["Q"] = _queue.time
    _T.time = fake
    _R.time = fake
    # queue.Queue.get(block=True, timeout=...) reads the monotonic clock; CrossHair makes that clock symbolic,
    # which multiplies every blocking-pool path.  The queue's deadline arithmetic is not under test: constant clock.
    _queue.time = lambda: 0.0
    return fake


def uninstall_clock():
    if _saved:
        _T.time = _saved["T"]
        _R.time = _saved["R"]
        _queue.time = _saved["Q"]
