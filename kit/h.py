"""Harness-side glue shared by every PEP-316 harness.

P       concrete partition parameters (set by the worker before analysis)
run()   executes a harness body, turns its verdict into a concrete bool (the
        solver decides which), records counterexample / sample arguments.
Nothing here is specific to one property.
"""
from __future__ import annotations

import os
from typing import Any, Callable, Dict, List


class _Part(dict):
    __getattr__ = dict.__getitem__


P: _Part = _Part()

# mode flags, set by the worker
TWIN = False            # reachability twin: the assertion point itself is the "violation"
SAMPLE_BUDGET = 0       # number of passing paths whose model is written out
KNOWN_ACTIVE: set = set()   # ids of known findings whose signature is honoured

FAILS: List[Dict[str, Any]] = []     # realised arguments of failing paths
SAMPLES: List[Dict[str, Any]] = []   # realised arguments of passing paths (solver models)
INFO: Dict[str, Any] = {}            # facts about the last native run (replay diagnostics)
KNOWN_HITS: List[str] = []           # known-finding ids whose signature matched on some path
NONTRIVIAL: Dict[str, int] = {}      # reachability counters (path classes that did something)


def _tracing() -> bool:
    try:
        from crosshair.tracers import is_tracing
        return bool(is_tracing())
    except Exception:
        return False


def _realize_args(args: tuple) -> list:
    from crosshair.core import deep_realize
    from crosshair.statespace import context_statespace
    context_statespace().detach_path()
    return [deep_realize(a) for a in args]


def _plain(x):
    """Concrete builtin str (or None) from whatever the engine handed us."""
    if x is None:
        return None
    from crosshair.core import deep_realize
    from crosshair.tracers import NoTracing
    x = deep_realize(x)
    with NoTracing():
        if type(x) is str:
            return x
        try:
            return "".join(chr(ord(c)) for c in x) if isinstance(x, str) else repr(x)
        except Exception:
            return "<unrenderable %s>" % type(x).__name__


def concretize(x):
    """Ask the solver for a model value of x and continue with that concrete value (the engine then explores
    the other values on later paths).  Used where the code under test hands the value to machinery the engine
    cannot follow symbolically within budget (regex matcher, C codecs): the bound stays exhaustive, value by value."""
    if _tracing():
        from crosshair.core import deep_realize
        return deep_realize(x)
    return x


def pin_index(idx, n):
    """Concrete value of the symbolic int idx (0 <= idx < n) by bisection: log2(n) linear comparisons decided by the solver, a
    balanced decision tree with exactly n leaves (one path per value, no re-visits, short constraint sets)."""
    lo, hi = 0, n
    while hi - lo > 1:
        mid = (lo + hi) // 2
        if idx < mid:
            hi = mid
        else:
            lo = mid
    return lo


_DIMS_CACHE: Dict[Any, Any] = {}
ISLICE = None       # (k, m): this worker enumerates the points k, k+m, k+2m, ... of its partition (set by the worker)
DIMS_NOW = None     # the dimensions of THIS worker's partition, evaluated natively before the analysis starts


def _dims_of(dims):
    """dims is a list, or the partition's dims function (then the value precomputed by the worker is used: evaluating it —
    or even looking it up in a dict — on symbolic paths costs decisions and makes paths differ)."""
    if type(dims) is list:
        return dims
    if DIMS_NOW is not None:
        return DIMS_NOW
    return dims(P)


def decode_point(idx, dims):
    """One solver variable for a finite product space: idx (0 <= idx < prod(len(d) for d in dims)) is pinned by bisection and
    decoded in mixed radix into one choice per dimension.  N points cost N paths, and CONFIRMED means all N were enumerated."""
    dims = _dims_of(dims)
    total = space_size(dims)
    if ISLICE is not None:
        k, m = ISLICE
        idx = k + m * pin_index(idx, (total - k + m - 1) // m)
    else:
        idx = pin_index(idx, total)
    out = []
    for d in dims:
        out.append(d[idx % len(d)])
        idx //= len(d)
    return out


def space_size(dims):
    n = 1
    for d in dims:
        n *= len(d)
    return n


def mark(counter: str) -> None:
    """Reachability counter: this path did the non-trivial thing named `counter`."""
    if _tracing():
        from crosshair.tracers import NoTracing
        with NoTracing():
            NONTRIVIAL[counter] = NONTRIVIAL.get(counter, 0) + 1
    else:
        NONTRIVIAL[counter] = NONTRIVIAL.get(counter, 0) + 1


def known(fid: str) -> bool:
    """True iff finding `fid` is listed as known (not fixed) and its signature may
    be honoured.  The caller has already established that the observed facts match
    the signature; this records the hit."""
    if fid in KNOWN_ACTIVE:
        if fid not in KNOWN_HITS:
            KNOWN_HITS.append(fid)
        return True
    return False


class Skip(Exception):
    """The harness could not judge this point (its own machinery gave up, e.g. a scheduler time-out under load):
    the path is ignored — it counts neither as a pass nor as a violation, and the partition cannot be CONFIRMED."""


def run(body: Callable[..., Any], *args: Any) -> bool:
    """Run `body(*args)`; its truthiness is the property verdict on this path."""
    global SAMPLE_BUDGET
    err = None
    INFO.clear()
    try:
        ok = body(*args)
    except Skip as e:
        if _tracing():
            from crosshair.util import IgnoreAttempt
            raise IgnoreAttempt("harness skipped this point: %s" % (e,))
        INFO["skipped"] = str(e)
        return True
    except Exception as e:  # only Exception: CrossHair steers with BaseException
        ok = False
        err = e
    ok = True if ok else False      # the solver decides here
    tracing = _tracing()
    if TWIN:
        # reaching this point is what the twin must demonstrate
        if tracing:
            vals = _realize_args(args)
            FAILS.append({"args": vals, "twin": True})
        return False
    if not ok:
        if tracing:
            vals = _realize_args(args)
            from crosshair.core import deep_realize
            why = deep_realize(INFO.get("why"))
            errs = None
            if err is not None:
                import traceback
                try:
                    errs = deep_realize(type(err).__name__ + ": " + "".join(traceback.format_exception(err))[-1500:])
                except Exception as e2:
                    errs = type(err).__name__
            FAILS.append({"args": vals, "err": _plain(errs), "why": _plain(why)})
        else:
            INFO["err"] = repr(err) if err is not None else None
            if err is not None:
                import traceback
                INFO["traceback"] = "".join(traceback.format_exception(err))[-3000:]
        return False
    if tracing and SAMPLE_BUDGET > 0:
        SAMPLE_BUDGET -= 1
        vals = _realize_args(args)
        SAMPLES.append({"args": vals})
    return True
