"""Concrete fast paths.

CrossHair interprets every traced opcode and swaps `bytearray()`/`frozenset()`/codecs for its own symbolic-friendly
Python implementations even when every value involved is concrete.  For urllib3 that makes one `parse_url("http://a/x")`
cost ~80 ms (its percent-encoder builds a bytearray and decodes it).  A function wrapped here runs OUTSIDE the tracer when —
and only when — all its arguments are plain concrete builtins; with any symbolic argument it is traced as usual.  The code
executed is the same real function of /repo either way; only the interpretation overhead disappears.
"""
from __future__ import annotations

import sys

_CONCRETE = (str, int, bool, float, bytes, type(None))


def _all_concrete(args, kwargs):
    for a in args:
        if type(a) not in _CONCRETE:
            if type(a) in (tuple, frozenset) and all(type(x) in _CONCRETE for x in a):
                continue
            return False
    for a in kwargs.values():
        if type(a) not in _CONCRETE:
            return False
    return True


def fast_if_concrete(fn):
    if hasattr(fn, "__fast_wrapped__"):
        return fn

    def wrapper(*a, **kw):
        try:
            from crosshair.tracers import NoTracing, is_tracing
        except Exception:
            return fn(*a, **kw)
        if not is_tracing():
            return fn(*a, **kw)
        with NoTracing():
            ok = _all_concrete(a, kw)
            if ok:
                return fn(*a, **kw)
        return fn(*a, **kw)
    wrapper.__fast_wrapped__ = fn
    wrapper.__name__ = getattr(fn, "__name__", "wrapped")
    wrapper.__doc__ = getattr(fn, "__doc__", None)
    return wrapper


def install():
    """Wrap urllib3's URL helpers wherever a module holds a reference to them."""
    import urllib3
    import urllib3.util.url as U
    targets = {}
    for name in ("parse_url", "_encode_target", "_normalize_host"):
        orig = getattr(U, name)
        if hasattr(orig, "__fast_wrapped__"):
            continue
        targets[orig] = fast_if_concrete(orig)
    if not targets:
        return
    for modname, mod in list(sys.modules.items()):
        if not modname.startswith("urllib3") or mod is None:
            continue
        for attr, val in list(vars(mod).items()):
            try:
                if val in targets:
                    setattr(mod, attr, targets[val])
            except TypeError:
                pass
