"""In-memory network: replaces only the kernel.

`install(handler)` assigns `urllib3.util.connection.create_connection` (the single place where
urllib3 obtains a socket) and `urllib3.connection.wait_for_read` (poll).  Everything above —
HTTPConnection._new_conn/connect/_tunnel/request/getresponse/close and all of http.client — runs
unmodified on MemSock objects.

A handler provides the peer:
    on_connect(net, sock)        may raise (OSError / socket.timeout / gaierror / BaseException)
    on_send(sock, data)          may raise; data already appended to sock.tx when it returns
    on_read(sock) -> bytes       next segment for the client (b"" = EOF) or raises
    readable(sock) -> bool       poll(): bytes or EOF pending for the client?
"""
from __future__ import annotations

import io
import logging
import socket as _socket

import urllib3
import urllib3.connection as _uconn
import urllib3.util.connection as _uutilconn
import urllib3.util.wait as _uwait

logging.disable(logging.CRITICAL)   # formatting log records realises symbolic values


class _Raw(io.RawIOBase):
    def __init__(self, sock):
        self.s = sock

    def readable(self):
        return True

    def close(self):
        if not self.closed:
            super().close()
            self.s._file_closed()

    def readinto(self, b):
        s = self.s
        if self.closed:
            raise ValueError("I/O operation on closed file")
        if not s.rx:
            if s.closed:
                raise OSError(9, "Bad file descriptor")
            seg = s.net.handler.on_read(s)
            if not seg:
                s.eof_seen = True
                return 0
            s.rx = bytes(seg)
        n = min(len(b), len(s.rx))
        b[:n] = s.rx[:n]
        s.rx = s.rx[n:]
        s.delivered += n
        return n


class MemSock:
    def __init__(self, net, address, timeout, source_address, socket_options):
        self.net = net
        self.id = len(net.socks)
        self.address = address
        self.connect_timeout = timeout
        self.source_address = source_address
        self.socket_options = socket_options
        self.tx = b""            # everything the client wrote
        self.sends = 0
        self.rx = b""            # delivered by peer, not yet read by client
        self.delivered = 0
        self.closed = False      # the descriptor is really gone (socket closed AND every makefile() object closed)
        self.user_closed = False  # close() was called on the socket object
        self.eof_seen = False
        self.timeouts = []       # settimeout log
        self.events = []         # ("send", n) / ("settimeout", t) in order
        self.tls = None          # set by TLS stub
        self.refs = 0

    # -- socket API used by http.client / urllib3 --
    def settimeout(self, t):
        self.timeouts.append(t)
        self.events.append(("settimeout", t))

    def gettimeout(self):
        return self.timeouts[-1] if self.timeouts else None

    def setsockopt(self, *a):
        pass

    def sendall(self, data):
        if self.closed or self.user_closed:
            raise OSError(9, "Bad file descriptor")
        data = bytes(data)
        self.sends += 1
        self.net.handler.on_send(self, data)
        self.tx += data
        self.events.append(("send", len(data)))

    def send(self, data):
        self.sendall(data)
        return len(data)

    def recv(self, n, flags=0):
        """socket.recv incl. MSG_PEEK (bytes the peer has made available; b"" = EOF)."""
        if self.closed or self.user_closed:
            raise OSError(9, "Bad file descriptor")
        if not self.rx:
            if not self.net.handler.readable(self):
                raise BlockingIOError(11, "Resource temporarily unavailable")
            seg = self.net.handler.on_read(self)
            if not seg:
                self.eof_seen = True
                return b""
            self.rx = bytes(seg)
        out = self.rx[:n]
        if not (flags & _socket.MSG_PEEK):
            self.rx = self.rx[n:]
            self.delivered += len(out)
        return out

    def makefile(self, mode="rb", buffering=None, **kw):
        self.refs += 1
        return io.BufferedReader(_Raw(self), 8192)

    # socket.socket semantics: close() only releases the descriptor once every file object obtained from
    # makefile() has been closed too (socket._io_refs) — a response that is still being read keeps it alive.
    def close(self):
        self.user_closed = True
        if self.refs <= 0:
            self._real_close()

    def _file_closed(self):
        self.refs -= 1
        if self.user_closed and self.refs <= 0:
            self._real_close()

    def _real_close(self):
        if not self.closed:
            self.closed = True
            self.net.open_now -= 1

    def shutdown(self, how):
        pass

    def fileno(self):
        return -1

    def readable(self):
        if self.closed or self.user_closed:
            return True
        return bool(self.rx) or self.net.handler.readable(self)

    def selected_alpn_protocol(self):
        return None

    def getpeercert(self, binary_form=False):
        return {} if not binary_form else b""

    def version(self):
        return "TLSv1.3"


class BaseHandler:
    def on_connect(self, net, sock):
        pass

    def on_send(self, sock, data):
        pass

    def on_read(self, sock):
        return b""

    def readable(self, sock):
        return False


class Net:
    def __init__(self, handler):
        self.handler = handler
        self.socks = []
        self.dials = []      # (address, timeout, source_address, socket_options)
        self.open_now = 0
        self.max_open = 0

    def create_connection(self, address, timeout=None, source_address=None, socket_options=None):
        self.dials.append((address, timeout, source_address, socket_options))
        s = MemSock(self, address, timeout, source_address, socket_options)
        self.handler.on_connect(self, s)     # may raise: nothing was opened
        self.socks.append(s)
        self.open_now += 1
        if self.open_now > self.max_open:
            self.max_open = self.open_now
        return s

    def open_socks(self):
        return [s for s in self.socks if not s.closed]


_saved = {}


def install(handler) -> Net:
    net = Net(handler)
    if not _saved:
        _saved["cc"] = _uutilconn.create_connection
        _saved["wfr"] = _uconn.wait_for_read
    _uutilconn.create_connection = net.create_connection
    _uconn.wait_for_read = lambda sock, timeout=None: sock.readable()
    return net


def uninstall():
    if _saved:
        _uutilconn.create_connection = _saved["cc"]
        _uconn.wait_for_read = _saved["wfr"]


# ----------------------------------------------------------------------------------------------
# Strict, independent HTTP/1.1 request parser (RFC 9112) used by peers and oracles.

TCHAR = set(b"!#$%&'*+-.^_`|~0123456789abcdefghijklmnopqrstuvwxyzABCDEFGHIJKLMNOPQRSTUVWXYZ")


class ParseError(Exception):
    pass


def parse_requests(buf: bytes):
    """Parse `buf` as a sequence of complete HTTP/1.1 requests.

    Returns (requests, rest) where each request is a dict(method, target, version, headers
    [(name, value)], body bytes, framing) and rest is the unparsed tail (an incomplete message).
    Raises ParseError if the bytes are not well-formed requests."""
    out = []
    pos = 0
    while pos < len(buf):
        end = buf.find(b"\r\n\r\n", pos)
        if end < 0:
            break
        head = buf[pos:end]
        lines = head.split(b"\r\n")
        rl = lines[0]
        parts = rl.split(b" ")
        if len(parts) != 3:
            raise ParseError("request line %r" % rl)
        method, target, version = parts
        if not method or any(c not in TCHAR for c in method):
            raise ParseError("method %r" % method)
        if not target or any(c <= 0x20 or c == 0x7F for c in target):
            raise ParseError("target %r" % target)
        if version not in (b"HTTP/1.1", b"HTTP/1.0"):
            raise ParseError("version %r" % version)
        headers = []
        for ln in lines[1:]:
            if ln[:1] in (b" ", b"\t"):
                if not headers:
                    raise ParseError("obs-fold without field")
                n, v = headers[-1]
                headers[-1] = (n, (v + b" " + ln.strip(b" \t")).strip(b" \t"))
                continue
            if b"\r" in ln or b"\n" in ln or b"\x00" in ln:
                raise ParseError("bare CR/LF/NUL in header line %r" % ln)
            i = ln.find(b":")
            if i <= 0:
                raise ParseError("header line %r" % ln)
            name = ln[:i]
            if any(c not in TCHAR for c in name):
                raise ParseError("header name %r" % name)
            headers.append((name, ln[i + 1:].strip(b" \t")))
        body_start = end + 4
        te = [v for n, v in headers if n.lower() == b"transfer-encoding"]
        cl = [v for n, v in headers if n.lower() == b"content-length"]
        if te and te[-1].lower().endswith(b"chunked"):
            body = b""
            p = body_start
            chunks = []
            complete = False
            while True:
                e = buf.find(b"\r\n", p)
                if e < 0:
                    break
                szline = buf[p:e].split(b";")[0].strip()
                try:
                    sz = int(szline, 16)
                except ValueError:
                    raise ParseError("chunk size %r" % szline)
                if not szline or any(c not in b"0123456789abcdefABCDEF" for c in szline):
                    raise ParseError("chunk size %r" % szline)
                p = e + 2
                if sz == 0:
                    # trailer section: we emit none → expect CRLF
                    if buf[p:p + 2] == b"\r\n":
                        p += 2
                        complete = True
                    elif len(buf) < p + 2:
                        pass
                    else:
                        raise ParseError("trailer not supported in oracle: %r" % buf[p:p + 10])
                    break
                if len(buf) < p + sz + 2:
                    break
                chunks.append(buf[p:p + sz])
                if buf[p + sz:p + sz + 2] != b"\r\n":
                    raise ParseError("chunk not terminated by CRLF")
                p += sz + 2
            if not complete:
                break
            out.append(dict(method=method, target=target, version=version, headers=headers,
                            body=b"".join(chunks), framing="chunked", chunks=chunks))
            pos = p
        elif cl:
            try:
                n = int(cl[0])
            except ValueError:
                raise ParseError("content-length %r" % cl[0])
            if any(v != cl[0] for v in cl) or n < 0 or not cl[0].isdigit():
                raise ParseError("content-length %r" % cl)
            if len(buf) < body_start + n:
                break
            out.append(dict(method=method, target=target, version=version, headers=headers,
                            body=buf[body_start:body_start + n], framing="content-length", chunks=None))
            pos = body_start + n
        else:
            out.append(dict(method=method, target=target, version=version, headers=headers,
                            body=b"", framing=None, chunks=None))
            pos = body_start
    return out, buf[pos:]


def hdr(req, name: bytes):
    name = name.lower()
    return [v for n, v in req["headers"] if n.lower() == name]


def response_bytes(status=200, reason="OK", headers=(), body=b"", chunked=False, version="HTTP/1.1",
                   content_length=True):
    lines = ["%s %d %s" % (version, status, reason)]
    hs = list(headers)
    if chunked:
        hs.append(("Transfer-Encoding", "chunked"))
        payload = b"".join(b"%x\r\n%b\r\n" % (len(c), c) for c in ([body] if body else [])) + b"0\r\n\r\n"
    else:
        payload = body
        if content_length:
            hs.append(("Content-Length", str(len(body))))
    for k, v in hs:
        lines.append("%s: %s" % (k, v))
    return ("\r\n".join(lines) + "\r\n\r\n").encode("latin-1") + payload


# ----------------------------------------------------------------------------------------------
# Speed: http.client hands the already-read, concrete header lines to the email parser.  That parser
# is standard-library code working on concrete bytes; running it outside the tracer changes nothing
# the solver could decide and removes ~40% of the per-path interpretive overhead.

def _untraced(fn):
    def wrapper(*a, **kw):
        try:
            from crosshair.tracers import NoTracing, is_tracing
        except Exception:
            return fn(*a, **kw)
        if not is_tracing():
            return fn(*a, **kw)
        with NoTracing():
            return fn(*a, **kw)
    wrapper.__wrapped__ = fn
    return wrapper


import http.client as _hc

# the oracle-side parser and response builder only see concrete bytes
parse_requests = _untraced(parse_requests)
response_bytes = _untraced(response_bytes)

if not hasattr(_hc._parse_header_lines, "__wrapped__"):
    _hc._parse_header_lines = _untraced(_hc._parse_header_lines)
