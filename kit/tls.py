"""TLS contract stub: OpenSSL replaced by its documented contract, urllib3's own TLS decision code runs for real.

What is replaced (module attributes, in the harness process only):
  urllib3.connection.create_urllib3_context / urllib3.util.ssl_.create_urllib3_context -> ContractContext factory
  urllib3.util.ssl_.SSLTransport (TLS-in-TLS)                                       -> ContractTransport
  urllib3.connection.datetime                                                       -> fixed date (clock is not the subject)
What runs unmodified: HTTPSConnection.__init__/connect/_connect_tls_proxy, _ssl_wrap_socket_and_match_hostname,
  ssl_wrap_socket, _ssl_wrap_socket_impl, resolve_cert_reqs, assert_fingerprint, _match_hostname/match_hostname,
  HTTPSConnectionPool._new_conn/_validate_conn/_prepare_proxy, ProxyManager.

ContractContext.wrap_socket(sock, server_hostname) — the handshake contract:
  fails with ssl.SSLCertVerificationError  iff  (verify_mode != CERT_NONE and the peer's issuer is not among the loaded CAs)
                                            or  (check_hostname and the peer's certificate does not match server_hostname)
  setting verify_mode = CERT_NONE while check_hostname is on raises ValueError (as CPython does);
  setting check_hostname = True while verify_mode is CERT_NONE switches verify_mode to CERT_REQUIRED (as CPython does);
  getpeercert() is {} when verify_mode is CERT_NONE, else the scripted dict; getpeercert(True) is the scripted DER bytes.
The peer's certificate for a connection is chosen by the script from the DIALLED address and the TLS layer (proxy leg vs
origin leg inside a tunnel).
"""
from __future__ import annotations

import datetime as _datetime
import ssl

import urllib3.connection as _C
import urllib3.util.ssl_ as _S


class Cert:
    def __init__(self, issuer="default", san=(), cn=None, der=b"der-bytes"):
        self.issuer = issuer
        self.san = tuple(san)
        self.cn = cn
        self.der = der

    def as_dict(self):
        d = {"subjectAltName": self.san}
        if self.cn is not None:
            d["subject"] = ((("commonName", self.cn),),)
        return d


def _name_ok(cert: Cert, hostname: str, check_cn: bool) -> bool:
    """OpenSSL-side name check (contract): exact / left-most-label wildcard DNS match, IP SANs by value."""
    import ipaddress
    try:
        ip = ipaddress.ip_address(hostname)
    except ValueError:
        ip = None
    for kind, val in cert.san:
        if ip is not None:
            if kind == "IP Address":
                try:
                    if ipaddress.ip_address(val.strip()) == ip:
                        return True
                except ValueError:
                    pass
        elif kind == "DNS":
            v = val.lower()
            h = hostname.lower()
            if v == h:
                return True
            if v.startswith("*.") and "." in h and h.split(".", 1)[1] == v[2:] and h.split(".", 1)[0]:
                return True
    if ip is None and check_cn and not cert.san and cert.cn is not None and cert.cn.lower() == hostname.lower():
        return True
    return False


class TlsSock:
    """A TLS layer over a MemSock (or over another TlsSock for TLS-in-TLS).  Application bytes pass through unchanged; the
    layer records who was authenticated with which parameters."""

    def __init__(self, inner, ctx, server_hostname, cert, tls_in_tls=False):
        self._inner = inner
        self._ctx = ctx
        self.server_hostname = server_hostname
        self._cert = cert
        self.tls_in_tls = tls_in_tls
        self.verify_mode_at_handshake = ctx.verify_mode
        self.check_hostname_at_handshake = ctx.check_hostname
        base = inner
        while isinstance(base, TlsSock):
            base = base._inner
        self.base = base
        base.tls_layers = getattr(base, "tls_layers", [])
        base.tls_layers.append({"server_hostname": server_hostname, "tls_in_tls": tls_in_tls, "tx_at": len(base.tx),
                                "verify_mode": int(ctx.verify_mode), "check_hostname": bool(ctx.check_hostname),
                                "cas": sorted(ctx.cas), "alpn": list(ctx.alpn or [])})

    def getpeercert(self, binary_form=False):
        if binary_form:
            return self._cert.der
        if self.verify_mode_at_handshake == ssl.CERT_NONE:
            return {}
        return self._cert.as_dict()

    def selected_alpn_protocol(self):
        return None

    def version(self):
        return "TLSv1.3"

    def __getattr__(self, name):
        return getattr(self._inner, name)


class ContractContext:
    def __init__(self, net_script, flavour="ssl", protocol=None):
        self._script = net_script
        self.flavour = flavour
        self._verify_mode = ssl.CERT_REQUIRED if flavour == "ssl" else ssl.CERT_NONE
        self._check_hostname = flavour == "ssl"
        self.hostname_checks_common_name = False
        self.cas = set()
        self.alpn = None
        self.options = 0
        self.minimum_version = None
        self.maximum_version = None
        self.post_handshake_auth = None
        self.cert_chain = None
        self.ciphers = None
        self.log = []
        if flavour == "ssl":
            self.load_default_certs = self._load_default_certs

    # -- CPython's coupling of the two switches --
    @property
    def verify_mode(self):
        return self._verify_mode

    @verify_mode.setter
    def verify_mode(self, v):
        v = ssl.VerifyMode(v)
        if self.flavour == "ssl" and v == ssl.CERT_NONE and self._check_hostname:
            raise ValueError("Cannot set verify_mode to CERT_NONE when check_hostname is enabled.")
        self._verify_mode = v

    @property
    def check_hostname(self):
        return self._check_hostname

    @check_hostname.setter
    def check_hostname(self, v):
        v = bool(v)
        if self.flavour != "ssl":
            # PyOpenSSLContext.check_hostname is a plain attribute: it keeps what it is given and nothing ever acts on it
            self._check_hostname = v
            return
        if v and self._verify_mode == ssl.CERT_NONE:
            self._verify_mode = ssl.CERT_REQUIRED
        self._check_hostname = v

    def _load_default_certs(self, *a):
        self.cas.add("default")

    def load_verify_locations(self, cafile=None, capath=None, cadata=None):
        for x in (cafile, capath, cadata):
            if x:
                self.cas.add(x if isinstance(x, str) else x.decode("latin-1"))

    def load_cert_chain(self, certfile, keyfile=None, password=None):
        self.cert_chain = (certfile, keyfile, password)

    def set_alpn_protocols(self, protos):
        self.alpn = list(protos)

    def set_ciphers(self, c):
        self.ciphers = c

    def wrap_socket(self, sock, server_side=False, do_handshake_on_connect=True, suppress_ragged_eofs=True,
                    server_hostname=None, tls_in_tls=False):
        enforce_name = self._check_hostname and self.flavour == "ssl"        # only the stdlib context checks names itself
        if enforce_name and not server_hostname:
            raise ValueError("check_hostname requires server_hostname")
        cert = self._script.cert_for(sock, server_hostname, tls_in_tls)
        self.log.append(("handshake", server_hostname, int(self._verify_mode), self._check_hostname))
        if self._verify_mode != ssl.CERT_NONE and cert.issuer not in self.cas:
            raise ssl.SSLCertVerificationError(1, "[SSL: CERTIFICATE_VERIFY_FAILED] certificate verify failed: unable to get local "
                                                  "issuer certificate")
        if enforce_name and not _name_ok(cert, server_hostname, self.hostname_checks_common_name):
            raise ssl.SSLCertVerificationError(1, "[SSL: CERTIFICATE_VERIFY_FAILED] certificate verify failed: Hostname mismatch")
        return TlsSock(sock, self, server_hostname, cert, tls_in_tls)


class ContractTransport:
    """Stand-in for urllib3.util.ssltransport.SSLTransport (TLS-in-TLS): same constructor, same contract as wrap_socket."""

    @staticmethod
    def _validate_ssl_context_for_tls_in_tls(ssl_context):
        pass

    def __new__(cls, sock, ssl_context, server_hostname=None, suppress_ragged_eofs=True):
        return ssl_context.wrap_socket(sock, server_hostname=server_hostname, tls_in_tls=True)


class Script:
    """Which certificate a peer presents.  certs: dict key -> Cert, key = dialled host for a direct / proxy leg,
    ('tunnel', server_hostname or dialled host) for the origin leg inside a tunnel."""

    def __init__(self, certs=None, default=None):
        self.certs = certs or {}
        self.default = default or Cert("default", (("DNS", "*"),))
        self.contexts = []

    def cert_for(self, sock, server_hostname, tls_in_tls):
        base = sock
        while isinstance(base, TlsSock):
            base = base._inner
        layers = getattr(base, "tls_layers", [])
        tunnelled = getattr(base, "tunnel_established", False)
        if tunnelled:
            key = ("tunnel", getattr(base, "tunnel_target", None))
            if key in self.certs:
                return self.certs[key]
            key = ("tunnel", None)
            if key in self.certs:
                return self.certs[key]
        host = base.address[0]
        return self.certs.get(host, self.default)


class _FixedDate(_datetime.date):
    @classmethod
    def today(cls):
        return cls(2026, 1, 1)


class _DT:
    date = _FixedDate
    datetime = _datetime.datetime
    timezone = _datetime.timezone
    timedelta = _datetime.timedelta


_saved = {}


def install(script: Script, flavour="ssl", has_never_check_cn=True):
    """SSLContext inside urllib3.util.ssl_ becomes the contract class, so the REAL create_urllib3_context configures it."""
    if not _saved:
        _saved["S.ctxcls"] = _S.SSLContext
        _saved["S.tr"] = _S.SSLTransport
        _saved["C.dt"] = _C.datetime
        _saved["py"] = _S.IS_PYOPENSSL
        _saved["cn"] = _S.HAS_NEVER_CHECK_COMMON_NAME

    class Ctx(ContractContext):
        def __init__(self, protocol=None):
            ContractContext.__init__(self, script, flavour)
            script.contexts.append(self)
    _S.SSLContext = Ctx
    _S.SSLTransport = ContractTransport
    _S.IS_PYOPENSSL = flavour != "ssl"
    _S.HAS_NEVER_CHECK_COMMON_NAME = has_never_check_cn
    _C.datetime = _DT
    return Ctx


def uninstall():
    if _saved:
        _S.SSLContext = _saved["S.ctxcls"]
        _S.SSLTransport = _saved["S.tr"]
        _C.datetime = _saved["C.dt"]
        _S.IS_PYOPENSSL = _saved["py"]
        _S.HAS_NEVER_CHECK_COMMON_NAME = _saved["cn"]
