"""Corrections to CrossHair 0.0.110 needed to execute resource-holding objects faithfully.

CrossHair's stand-ins for `format()` (used by every f-string field) and `str.__mod__` start with
`deep_realize(obj)`, which *copies the whole object graph* of the value being formatted.  For
urllib3 that means `f"{pool}: {message}"` in an exception constructor clones the pool, its queue, the
connections and their http.client responses; members that cannot be copied (C-level file objects)
are shared, and when the clone is garbage collected its `__del__` closes the *live* response's file.
The symbolic run then diverges from Python (observed: ValueError "I/O operation on closed file"
that no native run produces).  The replacements below realise only CrossHair's own symbolic values
and builtin containers, and format every other object by calling its own methods under tracing.
"""
from __future__ import annotations


def apply():
    import crosshair.core_and_libs  # noqa
    import crosshair.core as core
    from crosshair.core import deep_realize, realize
    from crosshair.libimpl import builtinslib as B
    from crosshair.tracers import NoTracing, ResumedTracing
    from crosshair.util import CrossHairValue

    BUILTIN = (int, float, str, bool, bytes, bytearray, tuple, list, dict, set, frozenset, type(None), complex)

    def needs_realize(obj):
        return isinstance(obj, CrossHairValue) or type(obj) in BUILTIN

    def safe_format(obj, format_spec=""):
        with NoTracing():
            if isinstance(format_spec, B.AnySymbolicStr):
                format_spec = realize(format_spec)
            if format_spec in ("", "s") and isinstance(obj, B.AnySymbolicStr):
                return obj
            if needs_realize(obj):
                obj = deep_realize(obj)
                result = B.invoke_dunder(obj, "__format__", format_spec)
                if result is not B._MISSING:
                    return result
                return format(obj, format_spec)
        # plain object: its own __format__/__str__, traced (no cloning)
        cls_format = type(obj).__format__
        if cls_format is object.__format__:
            if format_spec != "":
                raise TypeError("unsupported format string passed to %s.__format__" % type(obj).__name__)
            return B._str(obj)
        return cls_format(obj, format_spec)

    def safe_percent(self, other):
        if not isinstance(self, str):
            raise TypeError
        with NoTracing():
            if isinstance(other, tuple) and type(other) is tuple:
                other = tuple(deep_realize(o) if needs_realize(o) else o for o in other)
            elif needs_realize(other):
                other = deep_realize(other)
        return self.__mod__(other)

    # C codec entry points reached through codecs.StreamWriter (urllib3.filepost.writer): realise the text
    import _codecs
    for fn in (_codecs.utf_8_encode, _codecs.latin_1_encode, _codecs.ascii_encode):
        if fn not in core._PATCH_REGISTRATIONS:
            core._PATCH_REGISTRATIONS[fn] = core.with_realized_args(fn)

    # frozenset(...) under tracing always builds CrossHair's LinearSet, whose __hash__ can come back as a non-int
    # ("TypeError: __hash__ method should return an integer" when urllib3 hashes a PoolKey holding the frozen
    # proxy-header set): no native run does that.  Concrete elements -> the real frozenset.
    ch_frozenset = core._PATCH_REGISTRATIONS.get(frozenset)

    def concrete(x):
        if isinstance(x, CrossHairValue):
            return False
        if type(x) is tuple:
            return all(concrete(y) for y in x)
        return type(x) in (int, float, str, bool, bytes, type(None), frozenset)

    def safe_frozenset(*a):
        if not a:
            return frozenset()
        with NoTracing():
            itr = a[0]
            ok = not isinstance(itr, CrossHairValue)
        if ok:
            with NoTracing():
                # CPython copies the hash table of a real set/frozenset instance (subclasses included) WITHOUT calling its
                # __iter__ — e.g. urllib3's HTTPHeaderDictItemView, a set subclass that only overrides __iter__, yields frozenset()
                base = set if isinstance(itr, set) else (frozenset if isinstance(itr, frozenset) else None)
            items = list(base.__iter__(itr)) if base is not None else list(itr)
            with NoTracing():
                if all(concrete(x) for x in items):
                    return frozenset(items)
            return ch_frozenset(items)
        return ch_frozenset(*a)

    if ch_frozenset is not None:
        core._PATCH_REGISTRATIONS[frozenset] = safe_frozenset

    core._PATCH_REGISTRATIONS[format] = safe_format
    core._PATCH_REGISTRATIONS[str.__mod__] = safe_percent
