"""Concrete response fixtures shared by C12 / C13 / C03: payloads, content codings, framings.

The codecs are C (zlib, zstandard): streams are concrete, built here at import time.  What is symbolic in
the harnesses is everything urllib3 does *around* them: call kinds, amounts, segmentation, cut positions.
"""
from __future__ import annotations

import zlib

try:
    import zstandard as _zstd
except Exception:  # pragma: no cover
    _zstd = None


def payload(n: int) -> bytes:
    """Position-dependent content with line breaks (so that iteration splits)."""
    out = bytearray()
    for i in range(n):
        out.append(10 if i % 7 == 5 else 65 + (i % 26))
    return bytes(out)


def gzip_(b: bytes) -> bytes:
    c = zlib.compressobj(6, zlib.DEFLATED, 16 + zlib.MAX_WBITS)
    return c.compress(b) + c.flush()


def zlib_(b: bytes) -> bytes:
    return zlib.compress(b)


def rawdeflate(b: bytes) -> bytes:
    c = zlib.compressobj(6, zlib.DEFLATED, -zlib.MAX_WBITS)
    return c.compress(b) + c.flush()


def zstd_(b: bytes) -> bytes:
    return _zstd.ZstdCompressor().compress(b)


def encode(coding: str, p: bytes) -> bytes:
    """Wire representation of payload p under the named coding (the Content-Encoding header value is CODING_HEADER)."""
    h = len(p) // 2
    if coding == "identity":
        return p
    if coding == "gzip":
        return gzip_(p)
    if coding == "gzip2":            # two members
        return gzip_(p[:h]) + gzip_(p[h:])
    if coding == "gzip_garbage":     # complete member followed by trailing garbage (tolerated like other clients)
        return gzip_(p) + b"\x00\x00garbage"
    if coding == "deflate":
        return zlib_(p)
    if coding == "rawdeflate":
        return rawdeflate(p)
    if coding == "zstd":
        return zstd_(p)
    if coding == "zstd2":            # two frames
        return zstd_(p[:h]) + zstd_(p[h:])
    if coding == "gzip,deflate":     # applied in that order
        return zlib_(gzip_(p))
    if coding == "deflate,gzip":
        return gzip_(zlib_(p))
    raise KeyError(coding)


CODING_HEADER = {
    "identity": None, "gzip": "gzip", "gzip2": "gzip", "gzip_garbage": "x-gzip", "deflate": "deflate",
    "rawdeflate": "deflate", "zstd": "zstd", "zstd2": "zstd", "gzip,deflate": "gzip, deflate",
    "deflate,gzip": "deflate, gzip",
}


def frame(framing: str, raw: bytes, chunks=None, extra_headers=()):
    """Returns (header_block, body_wire, terminal) — terminal: the framing itself marks the end (not EOF)."""
    hs = ["HTTP/1.1 200 OK"]
    hs.extend(extra_headers)
    if framing == "cl":
        hs.append("Content-Length: %d" % len(raw))
        body = raw
    elif framing == "close":
        hs.append("Connection: close")
        body = raw
    elif framing == "chunked":
        hs.append("Transfer-Encoding: chunked")
        body = b""
        pos = 0
        sizes = list(chunks or [len(raw) or 1])
        i = 0
        while pos < len(raw):
            sz = sizes[i % len(sizes)]
            piece = raw[pos:pos + sz]
            ext = b";x=y" if i % 2 == 1 else b""
            body += b"%x" % len(piece) + ext + b"\r\n" + piece + b"\r\n"
            pos += len(piece)
            i += 1
        body += b"0\r\n\r\n"
    else:
        raise KeyError(framing)
    return ("\r\n".join(hs) + "\r\n\r\n").encode("ascii"), body


class Fixture:
    def __init__(self, name, plen, coding, framing, chunks=None):
        self.name = name
        self.payload = payload(plen)
        self.coding = coding
        self.framing = framing
        self.chunks = chunks
        self.raw = encode(coding, self.payload)           # transfer-decoded, content-encoded bytes
        ce = CODING_HEADER[coding]
        self.head, self.body = frame(framing, self.raw, chunks, ["Content-Encoding: " + ce] if ce else [])

    def expected(self, decode: bool) -> bytes:
        return self.payload if decode else self.raw

    def __repr__(self):
        return "Fixture(%s)" % self.name


def _mk():
    out = []

    def add(plen, coding, framing, chunks=None):
        nm = "%s/%s/%d%s" % (framing, coding, plen, ("/" + "-".join(map(str, chunks))) if chunks else "")
        out.append(Fixture(nm, plen, coding, framing, chunks))
    # identity under each framing, several sizes
    for plen in (0, 1, 5, 17):
        add(plen, "identity", "cl")
    add(5, "identity", "chunked", [1, 2])
    add(17, "identity", "chunked", [7, 1, 16])
    add(0, "identity", "chunked")
    add(5, "identity", "close")
    add(0, "identity", "close")
    # each coding once under content-length, then spread over the other framings
    for coding in ("gzip", "gzip2", "gzip_garbage", "deflate", "rawdeflate", "zstd", "zstd2", "gzip,deflate", "deflate,gzip"):
        add(17, coding, "cl")
    add(17, "gzip", "chunked", [5])
    add(17, "zstd2", "chunked", [3, 11])
    add(17, "deflate", "close")
    add(17, "gzip2", "close")
    add(17, "zstd", "close")
    add(17, "zstd2", "close")
    add(40, "gzip", "cl")
    add(40, "zstd", "chunked", [16])
    add(40, "rawdeflate", "chunked", [1])
    add(0, "gzip", "cl")
    add(1, "deflate", "cl")
    return out


FIXTURES = _mk()
BY_NAME = {f.name: f for f in FIXTURES}
