"""Runner: ./vcheck <ID> [--tier quick|thorough] [--replay FILE] [--jobs N] [--only SUBSTR]

Decides one property with the harnesses in harness/<id>.py:
  * every JOB is one CrossHair condition (harness function + concrete partition) run in its
    own OS process; z3 decides every branch of the real urllib3 code reached from it;
  * every LEMMA is a direct SMT query generated from live objects (engine E2);
  * every counterexample is replayed natively (no engine) before it is believed;
  * known findings are announced from their committed witnesses, never learnt at run time.
Exit: 0 = nothing unlisted violated on everything explored, 1 = VIOLATION printed,
      3 = harness/engine error (vacuity, crash, nothing decided).
"""
from __future__ import annotations

import argparse
import concurrent.futures as cf
import importlib
import json
import os
import re
import subprocess
import sys
import time

ROOT = os.path.dirname(os.path.dirname(os.path.abspath(__file__)))
if ROOT not in sys.path:
    sys.path.insert(0, ROOT)
PY = sys.executable
EVID = os.path.join(ROOT, "evidence")
REPLAYS = os.path.join(ROOT, "replays")


def load_known():
    p = os.path.join(ROOT, "known_findings.json")
    if not os.path.exists(p):
        return []
    return json.load(open(p))["findings"]


def run_worker(spec, wall_limit):
    t0 = time.time()
    try:
        cp = subprocess.run(
            [PY, "-m", "engine.worker", json.dumps(spec)],
            cwd=ROOT, capture_output=True, text=True, timeout=wall_limit,
            env={**os.environ, "PYTHONHASHSEED": "0", "URLLIB3_VERIF": "1"},
        )
    except subprocess.TimeoutExpired:
        return {"error": "worker exceeded wall limit %ss" % wall_limit, "spec": spec, "total_wall": time.time() - t0}
    out = cp.stdout
    i = out.rfind("\nRESULT ")
    if i < 0:
        return {"error": "no RESULT line; rc=%s stderr=%s" % (cp.returncode, cp.stderr[-2000:]), "spec": spec,
                "total_wall": time.time() - t0}
    try:
        return json.loads(out[i + 8:].strip().splitlines()[0])
    except Exception as e:
        return {"error": "bad RESULT json: %r" % e, "spec": spec, "total_wall": time.time() - t0}


def job_label(j):
    part = j.get("part") or {}
    s = ",".join("%s=%s" % (k, part[k]) for k in sorted(part))
    return j["func"] + ("[" + s + "]" if s else "")


def _bounds_text(b, tier):
    """bounds of this tier + every bound that is stated independently of the tier (keys other than quick/thorough)"""
    if not isinstance(b, dict):
        return b
    parts = [b[tier]] if tier in b else []
    parts += ["%s" % v for k, v in b.items() if k not in ("quick", "thorough")]
    return " | ".join(parts) if parts else b


def main(argv=None):
    ap = argparse.ArgumentParser()
    ap.add_argument("pid")
    ap.add_argument("--tier", default="quick")
    ap.add_argument("--replay")
    ap.add_argument("--jobs", type=int, default=int(os.environ.get("VERIF_JOBS", "16")))
    ap.add_argument("--only", default=None)
    ap.add_argument("--no-evidence", action="store_true")
    ap.add_argument("--fail-fast", action="store_true", help="seed trials: stop starting jobs once a counterexample was reported")
    a = ap.parse_args(argv)
    tier = os.environ.get("VERIF_TIER") or a.tier
    if tier not in ("quick", "thorough"):
        tier = "quick"
    seed = int(os.environ.get("VERIF_SEED", "0") or 0)
    pid = a.pid.upper()
    modname = "harness." + pid.lower()
    t_start = time.time()

    if a.replay:
        rec = json.load(open(a.replay))
        spec = dict(rec["spec"], mode="replay", args=rec["args"], known_active=[])
        r = run_worker(spec, 600)
        print(json.dumps(r, indent=1))
        bad = (not r.get("ok")) and r.get("pre_ok") and not r.get("error")
        if bad:
            print("VIOLATION property=%s replay=%s" % (pid, a.replay))
            return 1
        return 0

    mod = importlib.import_module(modname)
    known = [k for k in load_known() if k["property"] == pid]
    known_active = [k["id"] for k in known if k.get("state") == "known"]

    problems = []      # harness/engine errors  (→ exit 3)
    violations = []    # unlisted, natively reproduced (→ exit 1)
    known_seen = []
    native_records = []

    # ---- 0. known findings: replay the committed witnesses natively -------------------
    for k in known:
        if k.get("state") != "known":
            continue
        w = k["witness"]
        spec = {"module": w.get("module", modname), "func": w["func"], "part": w.get("part", {}),
                "mode": "replay", "args": w["args"], "known_active": []}
        r = run_worker(spec, 300)
        if r.get("error"):
            problems.append("known-finding witness %s could not be replayed: %s" % (k["id"], r["error"][-500:]))
        elif r.get("pre_ok") and not r.get("ok"):
            print("KNOWN-FINDING: property=%s %s: %s" % (pid, k["id"], k["what"]))
            known_seen.append(k["id"])
        else:
            print("note: known finding %s no longer reproduces from its witness (not suppressed either way)" % k["id"])

    # ---- 1. native self-tests of the harness oracles (not the deciding step) ---------
    if hasattr(mod, "SELFTEST"):
        try:
            st = mod.SELFTEST(tier)
            native_records.extend(st or [])
            for rec in st or []:
                if not rec.get("ok", True):
                    problems.append("oracle self-test failed: %s" % rec)
        except Exception as e:
            import traceback
            problems.append("oracle self-test crashed: " + "".join(traceback.format_exception(e))[-1500:])

    # ---- 2. E2 lemmas (run in a thread alongside the E1 jobs; z3 releases the GIL while solving) -----------
    lemma_results = []
    lemma_state = {"results": [], "error": None}

    def run_lemmas():
        try:
            lemma_state["results"] = mod.LEMMAS(tier) or []
        except Exception as e:
            import traceback
            lemma_state["error"] = "lemma generation crashed: " + "".join(traceback.format_exception(e))[-1500:]
    import threading
    lemma_thread = None
    if hasattr(mod, "LEMMAS") and not a.only:
        lemma_thread = threading.Thread(target=run_lemmas, daemon=True)
        lemma_thread.start()

    # ---- 3. E1 jobs ---------------------------------------------------------------------
    jobs = mod.JOBS(tier) if hasattr(mod, "JOBS") else []
    # single-index enumeration harnesses: the size of each partition's product space is computed from its dimensions
    if hasattr(mod, "DIMS"):
        from kit.h import space_size
        cap = 5000 if tier == "quick" else 12000       # points per process; bigger partitions are sliced round-robin
        sliced = []
        for j in jobs:
            fn = mod.DIMS.get(j["func"])
            if fn is None:
                sliced.append(j)
                continue
            total = space_size(fn(j["part"]))
            key = "npoints" if "npoints" in j["part"] else "n"
            if total <= cap:
                j["part"][key] = total
                sliced.append(j)
                continue
            m = (total + cap - 1) // cap
            for k in range(m):
                jj = dict(j, part=dict(j["part"]))
                jj["part"]["islice"] = [k, m]
                jj["part"][key] = (total - k + m - 1) // m
                sliced.append(jj)
        jobs = sliced
    if a.only:
        jobs = [j for j in jobs if a.only in job_label(j)]
    if seed:
        import random
        random.Random(seed).shuffle(jobs)
    # long jobs first
    jobs.sort(key=lambda j: -float(j.get("timeout", 60)))
    results = []

    stop = {"flag": False}

    def do(j):
        if stop["flag"]:
            return {"skipped": True, "label": job_label(j), "job": j, "messages": [], "spec": {}}
        spec = {"module": j.get("module", modname), "func": j["func"], "part": j.get("part", {}),
                "mode": "check", "timeout": j.get("timeout", 60), "path_timeout": j.get("path_timeout", 30),
                "known_active": known_active, "twin": j.get("twin", True), "samples": j.get("samples", 2)}
        if j.get("max_iter"):
            spec["max_iter"] = j["max_iter"]
        wall = float(j.get("timeout", 60)) * 2.5 + 150
        r = run_worker(spec, wall)
        r["label"] = job_label(j)
        r["job"] = j
        if a.fail_fast and any(m.get("state") in ("POST_FAIL", "EXEC_ERR", "POST_ERR") for m in r.get("messages") or []):
            stop["flag"] = True
        return r

    with cf.ThreadPoolExecutor(max_workers=a.jobs) as ex:
        for r in ex.map(do, jobs):
            results.append(r)

    if lemma_thread is not None:
        lemma_thread.join()
        if lemma_state["error"]:
            problems.append(lemma_state["error"])
        lemma_results = lemma_state["results"]
        for L in lemma_results:
            if L["verdict"] == "violated":
                # witness already replayed on the real code by the lemma code
                violations.append({"kind": "lemma", "name": L["name"], "witness": L.get("witness"), "detail": L.get("detail")})
            elif L["verdict"] == "inconclusive":
                print("inconclusive lemma: %s (%s)" % (L["name"], L.get("detail")))

    harness_summ = {}
    functions = set()
    states = transitions = validated = 0
    z3s = 0.0
    samples_out = []
    nontrivial_total = {}
    decided = 0
    for r in results:
        lab = r["label"]
        if r.get("skipped"):
            continue
        if r.get("error"):
            problems.append("%s: worker error: %s" % (lab, r["error"][-800:]))
            harness_summ[lab] = {"verdict": "error"}
            continue
        tw = r.get("twin")
        if tw is not None and not tw.get("reached_natively"):
            problems.append("%s: reachability twin not refuted (vacuous or unreachable assertion): %s" % (lab, json.dumps(tw)[:600]))
        sts = [m["state"] for m in r["messages"]]
        verdict = "explored-only"
        if "PRE_UNSAT" in sts:
            problems.append("%s: PRE_UNSAT (vacuous precondition)" % lab)
            verdict = "vacuous"
        elif any(s in ("POST_FAIL", "EXEC_ERR", "POST_ERR", "SYNTAX_ERR", "IMPORT_ERR") for s in sts):
            verdict = "counterexample"
        elif sts == ["CONFIRMED"]:
            verdict = "CONFIRMED"
            decided += 1
        elif "CANNOT_CONFIRM" in sts:
            verdict = "explored-only"
            decided += 1
        if r.get("samples_disagree"):
            problems.append("%s: solver model of a passing path fails natively: %s" % (lab, json.dumps(r["samples_disagree"])[:800]))
        # counterexample → native replay
        if verdict == "counterexample":
            fails = r.get("fails") or []
            if not fails:
                problems.append("%s: engine reported %s but no arguments were captured: %s" % (lab, sts, json.dumps(r["messages"])[:800]))
                verdict = "engine-error"
            else:
                f = fails[0]
                fd = dict((k, v) for k, v in f["__dict__"])
                spec = {"module": r["spec"]["module"], "func": r["spec"]["func"], "part": r["spec"]["part"],
                        "mode": "replay", "args": fd["args"], "known_active": known_active}
                nr = run_worker(spec, 600)
                if nr.get("error"):
                    problems.append("%s: replay crashed: %s" % (lab, nr["error"][-800:]))
                    verdict = "engine-error"
                elif nr.get("pre_ok") and not nr.get("ok"):
                    os.makedirs(REPLAYS, exist_ok=True)
                    n = len(violations) + 1
                    path = os.path.join(REPLAYS, "%s-%d.json" % (pid, n))
                    json.dump({"property": pid, "spec": {k: spec[k] for k in ("module", "func", "part")},
                               "args": fd["args"], "symbolic_err": fd.get("err"), "native": nr}, open(path, "w"), indent=1)
                    violations.append({"kind": "harness", "label": lab, "replay": path, "args": fd["args"],
                                       "native": {k: nr.get(k) for k in ("exc", "info")}})
                    verdict = "VIOLATED"
                    decided += 1
                else:
                    verdict = "engine-artefact"
                    print("note: %s: counterexample %s did not reproduce natively (engine artefact) — harness inconclusive"
                          % (lab, json.dumps(fd["args"])[:300]))
        for kh in r.get("known_hits") or []:
            if kh not in known_seen:
                known_seen.append(kh)
        paths = int((r.get("stats") or {}).get("num_paths", 0))
        states += paths
        transitions += int(r.get("z3_checks", 0))
        z3s += float(r.get("z3_seconds", 0))
        validated += int(r.get("samples_validated", 0))
        for s in (r.get("samples") or [])[:1]:
            if len(samples_out) < 12:
                rec = {"harness": lab, "args": s}
                fn = (getattr(mod, "DIMS", None) or {}).get(r["job"]["func"])
                if fn is not None and isinstance(s, list) and len(s) == 1 and isinstance(s[0], int):
                    # single-index enumeration: write the decoded point out, not just its index
                    try:
                        dims = fn(r["job"]["part"])
                        i = s[0]
                        sl = r["job"]["part"].get("islice")
                        if sl:
                            i = sl[0] + sl[1] * i
                        pt = []
                        for d in dims:
                            pt.append(d[i % len(d)])
                            i //= len(d)
                        rec["point"] = json.loads(json.dumps(pt, default=repr))
                    except Exception as e:
                        rec["point"] = "undecodable: %r" % (e,)
                samples_out.append(rec)
        for k, v in (r.get("nontrivial") or {}).items():
            nontrivial_total[lab + ":" + k] = v
        functions.update(r.get("functions") or [])
        harness_summ[lab] = {
            "verdict": verdict, "paths": paths, "z3_queries": r.get("z3_checks"), "z3_seconds": r.get("z3_seconds"),
            "z3_unknown": r.get("z3_unknown"), "wall_s": r.get("total_wall"), "budget_s": r["job"].get("timeout"),
            "twin_reached": bool(tw and tw.get("reached_natively")) if tw is not None else None,
            "models_replayed": r.get("samples_validated"),
        }

    # ---- verdict ------------------------------------------------------------------------
    rc = 0
    for v in violations:
        if v["kind"] == "lemma":
            os.makedirs(REPLAYS, exist_ok=True)
            safe = re.sub(r"[^A-Za-z0-9_.-]+", "_", v["name"])[:60]
            path = os.path.join(REPLAYS, "%s-lemma-%s.json" % (pid, safe))
            json.dump(v, open(path, "w"), indent=1)
            v["replay"] = path
        print("VIOLATION property=%s replay=%s" % (pid, v["replay"]))
        rc = 1
    lemmas_decided = sum(1 for L in lemma_results if L["verdict"] in ("holds", "violated"))
    if rc == 0 and (problems or (decided + lemmas_decided == 0)):
        rc = 3
    for p in problems:
        print("HARNESS-ERROR: " + p)

    wall = time.time() - t_start
    confirmed = [k for k, v in harness_summ.items() if v["verdict"] == "CONFIRMED"]
    explored = [k for k, v in harness_summ.items() if v["verdict"] == "explored-only"]
    info = getattr(mod, "EVIDENCE", {})
    if samples_out == [] and lemma_results:
        samples_out = [{"lemma": L["name"], "query": L.get("query", "")[:300], "result": L["verdict"]} for L in lemma_results[:5]]
    for rec in native_records[:3]:
        samples_out.append({"selftest": rec})
    cov = {
        "states": states + lemmas_decided,
        "transitions": transitions + sum(int(L.get("queries", 1)) for L in lemma_results),
        "traces_validated_against_impl": validated + sum(int(L.get("validated", 0)) for L in lemma_results),
        "samples": samples_out or [{"note": "no job produced a sample"}],
        "evaluations": states + lemmas_decided,
        "distinct_nontrivial": sum(1 for v in nontrivial_total.values() if v) + lemmas_decided,
        "rule": "evaluations = execution paths fully decided by z3 (path-tree leaves) + SMT lemmas decided; a case is "
                "non-trivial/distinct when it is a (harness partition, reachability counter) pair that was hit on at "
                "least one path (e.g. a fault actually injected, a redirect actually followed) or a decided lemma",
        "exhaustive": bool(harness_summ) and not explored and not problems and all(
            v["verdict"] == "CONFIRMED" for v in harness_summ.values()),
        "functions_encoded": sorted(functions) + list(info.get("functions_extra", [])),
        "bounds": _bounds_text(info.get("bounds", {}), tier),
        "outside_bounds": info.get("outside", []),
        "harnesses": harness_summ,
        "confirmed_exhaustive": confirmed,
        "explored_not_exhaustive": explored,
        "lemmas": lemma_results,
        "solver_seconds": round(z3s + sum(float(L.get("seconds", 0)) for L in lemma_results), 3),
        "queries_discharged": transitions + sum(int(L.get("queries", 1)) for L in lemma_results),
        "stubs": info.get("stubs", []),
        "known_findings_seen": known_seen,
        "nontrivial_counters": nontrivial_total,
        "harness_errors": problems,
        "violations_detail": violations,
        "selftests": native_records[:20],
    }
    ev = {
        "property_id": pid, "tier": tier, "seed": seed, "level": "model_checking",
        "coverage": cov, "assumptions": info.get("assumptions", []), "wall_s": round(wall, 2),
        "violations": len(violations),
    }
    if not a.no_evidence and not a.only:
        os.makedirs(EVID, exist_ok=True)
        json.dump(ev, open(os.path.join(EVID, pid + ".json"), "w"), indent=1)
    print("%s tier=%s: %d harness conditions (%d CONFIRMED exhaustive, %d explored-only), %d lemmas, "
          "%d paths, %d z3 queries, %.1fs solver, %.0fs wall → exit %d"
          % (pid, tier, len(harness_summ), len(confirmed), len(explored), len(lemma_results), states,
             cov["queries_discharged"], cov["solver_seconds"], wall, rc))
    if explored:
        print("explored-only (budget exhausted, not exhaustive): " + ", ".join(explored[:20]))
    return rc


if __name__ == "__main__":
    sys.exit(main())
