"""E2a — translate the compiled `re` patterns of the *live* modules into z3 regular-expression terms and
decide language facts (emptiness, inclusion, totality) over strings of ANY length.

Character classes are not re-implemented: each class / literal / category node is turned back into a
one-character pattern, compiled with the pattern's own flags, and evaluated by the real `re` engine on
every code point up to z3's character bound (0x2FFFF); the resulting set becomes a union of z3 ranges.
IGNORECASE, Unicode categories, negation etc. are therefore exactly Python's.  Structure (concatenation,
branches, repeats, groups, anchors) is translated node by node; anything else (look-around,
back-references, possessive/atomic constructs, anchors in the middle) raises Unsupported and the lemma is
reported inconclusive — never passed.
"""
from __future__ import annotations

import re
import subprocess
import tempfile
import os
import time

import z3

try:
    import re._parser as sre_parse
    import re._constants as sre_c
except ImportError:  # pragma: no cover
    import sre_parse
    import sre_constants as sre_c

MAXCHAR = 0x2FFFF
ALLCHAR = z3.Range(chr(0), z3.Unit(z3.CharVal(MAXCHAR))) if False else None


class Unsupported(Exception):
    pass


def _char(cp):
    return z3.Unit(z3.CharVal(cp))


def _range(lo, hi):
    if lo == hi:
        return z3.Re(_char(lo))
    return z3.Range(_char(lo), _char(hi))


def _ranges_to_re(ranges):
    if not ranges:
        return z3.Empty(z3.ReSort(z3.StringSort()))
    parts = [_range(lo, hi) for lo, hi in ranges]
    return parts[0] if len(parts) == 1 else z3.Union(*parts)


def any_char():
    return _range(0, MAXCHAR)


def sigma_star():
    return z3.Star(any_char())


_CLASS_CACHE = {}


def _esc(cp):
    return "\\U%08x" % cp


_CAT = {
    sre_c.CATEGORY_DIGIT: r"\d", sre_c.CATEGORY_NOT_DIGIT: r"\D",
    sre_c.CATEGORY_SPACE: r"\s", sre_c.CATEGORY_NOT_SPACE: r"\S",
    sre_c.CATEGORY_WORD: r"\w", sre_c.CATEGORY_NOT_WORD: r"\W",
}


def _class_source(op, av):
    if op is sre_c.LITERAL:
        return "[" + _esc(av) + "]"
    if op is sre_c.NOT_LITERAL:
        return "[^" + _esc(av) + "]"
    if op is sre_c.ANY:
        return "."
    if op is sre_c.CATEGORY:
        return _CAT[av]
    if op is sre_c.IN:
        out = "["
        items = list(av)
        if items and items[0][0] is sre_c.NEGATE:
            out += "^"
            items = items[1:]
        for iop, iav in items:
            if iop is sre_c.LITERAL:
                out += _esc(iav)
            elif iop is sre_c.RANGE:
                out += _esc(iav[0]) + "-" + _esc(iav[1])
            elif iop is sre_c.CATEGORY:
                out += _CAT[iav]
            else:
                raise Unsupported("class item %r" % (iop,))
        return out + "]"
    raise Unsupported(op)


def class_ranges(op, av, flags, maxcp=None):
    """Exact set of code points (<= MAXCHAR) matched by a one-character node, from the real engine."""
    if maxcp is not None:
        full = class_ranges(op, av, flags)
        return [(lo, min(hi, maxcp)) for lo, hi in full if lo <= maxcp]
    src = _class_source(op, av)
    key = (src, flags & (re.I | re.S | re.A | re.U | re.M))
    if key in _CLASS_CACHE:
        return _CLASS_CACHE[key]
    # fast path: case-sensitive explicit literals/ranges need no engine sweep
    pat = re.compile(src, flags & (re.I | re.S | re.A | re.M))
    fm = pat.fullmatch
    ranges = []
    start = None
    for cp in range(MAXCHAR + 1):
        ok = fm(chr(cp)) is not None
        if ok and start is None:
            start = cp
        elif not ok and start is not None:
            ranges.append((start, cp - 1))
            start = None
    if start is not None:
        ranges.append((start, MAXCHAR))
    _CLASS_CACHE[key] = ranges
    return ranges


class Translator:
    def __init__(self, pattern: "re.Pattern|str", flags=0):
        if isinstance(pattern, str):
            self.src = pattern
            self.flags = flags | re.U
        else:
            self.src = pattern.pattern
            self.flags = pattern.flags
        self.maxcp = None
        if isinstance(self.src, bytes):
            # bytes pattern: byte b <-> character chr(b) (Latin-1 view); classes are ASCII-defined (re.A), alphabet 0..255
            self.src = self.src.decode("latin-1")
            self.flags = (self.flags | re.A) & ~re.U
            self.maxcp = 255
        self.tree = sre_parse.parse(self.src, self.flags & ~re.U if False else self.flags)
        self.flags = self.tree.state.flags | self.flags
        self.groups = {}
        self._collect_groups(self.tree)

    def _collect_groups(self, sub):
        for op, av in sub:
            if op is sre_c.SUBPATTERN:
                g, af, df, p = av
                if g is not None:
                    self.groups[g] = p
                self._collect_groups(p)
            elif op is sre_c.BRANCH:
                for p in av[1]:
                    self._collect_groups(p)
            elif op in (sre_c.MAX_REPEAT, sre_c.MIN_REPEAT):
                self._collect_groups(av[2])

    # -- structure ---------------------------------------------------------------------------------
    def seq(self, sub, top=False):
        items = list(sub)
        parts = []
        n = len(items)
        for i, (op, av) in enumerate(items):
            if op is sre_c.AT:
                if av in (sre_c.AT_BEGINNING, sre_c.AT_BEGINNING_STRING):
                    if not (top and i == 0):
                        raise Unsupported("^ not at the start")
                    if av is sre_c.AT_BEGINNING and (self.flags & re.M):
                        raise Unsupported("^ with MULTILINE")
                    continue
                if av in (sre_c.AT_END, sre_c.AT_END_STRING):
                    if not (top and i == n - 1):
                        raise Unsupported("$ not at the end")
                    if av is sre_c.AT_END:
                        if self.flags & re.M:
                            raise Unsupported("$ with MULTILINE")
                        # `$` also matches just before a final newline
                        parts.append(z3.Option(z3.Re(_char(10))))
                    continue
                raise Unsupported("anchor %r" % (av,))
            parts.append(self.node(op, av, top and n == 1))
        if not parts:
            return z3.Re(z3.StringVal(""))
        return parts[0] if len(parts) == 1 else z3.Concat(*parts)

    def node(self, op, av, top=False):
        if op in (sre_c.LITERAL, sre_c.NOT_LITERAL, sre_c.ANY, sre_c.IN, sre_c.CATEGORY):
            return _ranges_to_re(class_ranges(op, av, self.flags, self.maxcp))
        if op is sre_c.BRANCH:
            alts = [self.seq(p, top) for p in av[1]]
            return z3.Union(*alts) if len(alts) > 1 else alts[0]
        if op is sre_c.SUBPATTERN:
            g, af, df, p = av
            if af or df:
                raise Unsupported("inline flags")
            return self.seq(p, top)
        if op in (sre_c.MAX_REPEAT, sre_c.MIN_REPEAT):
            lo, hi, p = av
            inner = self.seq(p)
            if hi is sre_c.MAXREPEAT or hi == sre_c.MAXREPEAT:
                if lo == 0:
                    return z3.Star(inner)
                if lo == 1:
                    return z3.Plus(inner)
                return z3.Concat(z3.Loop(inner, lo, lo), z3.Star(inner))
            if lo == 0 and hi == 1:
                return z3.Option(inner)
            return z3.Loop(inner, lo, hi)
        raise Unsupported("node %r" % (op,))

    def unbounded_repeats(self):
        """[(path description, z3 regex of the repeated body)] for every `*`, `+`, `{n,}` in the pattern, nested ones included."""
        found = []

        def walk(sub, where):
            for i, (op, av) in enumerate(sub):
                here = "%s/%d" % (where, i)
                if op is sre_c.SUBPATTERN:
                    walk(av[3], here + "()")
                elif op is sre_c.BRANCH:
                    for k, p in enumerate(av[1]):
                        walk(p, here + "|%d" % k)
                elif op in (sre_c.MAX_REPEAT, sre_c.MIN_REPEAT):
                    lo, hi, p = av
                    if hi is sre_c.MAXREPEAT or hi == sre_c.MAXREPEAT:
                        found.append((here + "{%d,}" % lo, self.seq(p)))
                    walk(p, here + "{}")
        walk(self.tree, "")
        return found

    def language(self):
        """Strings s with pattern.fullmatch(s)."""
        return self.seq(self.tree, top=True)

    def alphabet_star(self):
        return z3.Star(_ranges_to_re([(0, self.maxcp if self.maxcp is not None else MAXCHAR)]))

    def search_language(self):
        """Strings s with pattern.search(s) — for un-anchored patterns.  A negative look-ahead of ONE character at the
        very end of an alternative (`X(?![ab])`) is expanded: X at the end of the string, or X followed by a character
        outside the set."""
        sig = self.alphabet_star()
        items = list(self.tree)
        alts = [items]
        if len(items) == 1 and items[0][0] is sre_c.BRANCH:
            alts = [list(p) for p in items[0][1][1]]
        out = []
        for alt in alts:
            if alt and alt[-1][0] is sre_c.ASSERT_NOT:
                direction, sub = alt[-1][1]
                sub = list(sub)
                if direction != 1 or len(sub) != 1 or sub[0][0] not in (sre_c.IN, sre_c.LITERAL):
                    raise Unsupported("look-ahead shape")
                inside = class_ranges(sub[0][0], sub[0][1], self.flags, self.maxcp)
                top = self.maxcp if self.maxcp is not None else MAXCHAR
                neg = []
                prev = 0
                for lo, hi in inside:
                    if lo > prev:
                        neg.append((prev, lo - 1))
                    prev = hi + 1
                if prev <= top:
                    neg.append((prev, top))
                body = self.seq(alt[:-1])
                out.append(z3.Concat(sig, body))
                out.append(z3.Concat(sig, body, _ranges_to_re(neg), sig))
            else:
                for op, av in alt:
                    if op in (sre_c.ASSERT, sre_c.ASSERT_NOT):
                        raise Unsupported("look-around")
                out.append(z3.Concat(sig, self.seq(alt, top=True), sig) if not any(o is sre_c.AT for o, _ in alt)
                           else self._anchored_search(alt, sig))
        return z3.Union(*out) if len(out) > 1 else out[0]

    def _anchored_search(self, alt, sig):
        """search() of an alternative that starts with ^ and/or ends with $ (no MULTILINE)."""
        alt = list(alt)
        pre = sig
        post = sig
        if alt and alt[0][0] is sre_c.AT and alt[0][1] in (sre_c.AT_BEGINNING, sre_c.AT_BEGINNING_STRING):
            pre = z3.Re(z3.StringVal(""))
            alt = alt[1:]
        if alt and alt[-1][0] is sre_c.AT and alt[-1][1] in (sre_c.AT_END, sre_c.AT_END_STRING):
            post = z3.Option(z3.Re(_char(10))) if alt[-1][1] is sre_c.AT_END else z3.Re(z3.StringVal(""))
            alt = alt[:-1]
        if self.flags & re.M:
            raise Unsupported("MULTILINE")
        return z3.Concat(pre, self.seq(alt), post)

    def group_language(self, g):
        """Over-approximation of what group g can capture (over all parses)."""
        return self.seq(self.groups[g])


# ---- solving ----------------------------------------------------------------------------------------------


def _cvc5_check(smt2: str, timeout=60):
    """Second opinion from the cvc5 binary (strings-exp). Returns 'sat'/'unsat'/'unknown'/'n/a: ...'."""
    exe = "/usr/bin/cvc5"
    if not os.path.exists(exe):
        return "n/a: no cvc5"
    # z3 prints characters as (_ Char n) / (seq.unit (_ Char n)); cvc5 1.0 wants string literals
    smt2 = re.sub(r"\(seq\.unit \(_ Char (\d+)\)\)", lambda m: '"\\u{%x}"' % int(m.group(1)), smt2)
    smt2 = re.sub(r"\(_ Char (\d+)\)", lambda m: '(_ char #x%x)' % int(m.group(1)), smt2)
    with tempfile.NamedTemporaryFile("w", suffix=".smt2", delete=False) as f:
        f.write("(set-logic QF_SLIA)\n" + smt2 + "\n(check-sat)\n")
        path = f.name
    try:
        cp = subprocess.run([exe, "--strings-exp", "--tlimit=%d" % (timeout * 1000), path], capture_output=True,
                            text=True, timeout=timeout + 10)
        out = (cp.stdout + cp.stderr).strip()
        if "(error" in out or "rror" in out:
            return "n/a: " + out.splitlines()[0][:120]
        for tok in ("unsat", "sat", "unknown"):
            if out.startswith(tok):
                return tok
        return "n/a: " + out[:80]
    except Exception as e:
        return "n/a: %r" % (e,)
    finally:
        os.unlink(path)


def decide_empty(name, regex, replay=None, cross=True, timeout=60, extra=None, query=""):
    """Lemma: the language `regex` is empty.  sat => witness string, replayed through `replay(w)` which must
    return True iff the witness really violates the claim on the real code."""
    s = z3.String("s")
    sol = z3.Solver()
    sol.set("timeout", timeout * 1000)
    sol.add(z3.InRe(s, regex))
    if extra is not None:
        sol.add(extra(s))
    t0 = time.time()
    r = str(sol.check())
    dt = time.time() - t0
    out = {"name": name, "query": query or "L = {} ?", "z3": r, "seconds": round(dt, 3), "queries": 1, "validated": 0}
    if r == "unsat":
        out["verdict"] = "holds"
        if cross:
            c = _cvc5_check(sol.to_smt2().replace("(check-sat)", ""), timeout=6)
            out["cvc5"] = c
            if c == "sat":
                out["verdict"] = "inconclusive"
                out["detail"] = "z3 unsat but cvc5 sat"
    elif r == "sat":
        w = sol.model()[s]
        w = w.as_string() if w is not None else ""
        w = _unescape(w)
        out["witness"] = w
        if replay is None:
            out["verdict"] = "inconclusive"
            out["detail"] = "sat without replay function"
        else:
            ok = False
            try:
                ok = bool(replay(w))
            except Exception as e:
                out["detail"] = "replay raised %r" % (e,)
            if ok:
                out["verdict"] = "violated"
                out["validated"] = 1
            else:
                out["verdict"] = "inconclusive"
                out["detail"] = out.get("detail", "witness %r does not reproduce on the real code (translation artefact)" % w)
    else:
        out["verdict"] = "inconclusive"
        out["detail"] = "solver answered " + r
    return out


def _unescape(w: str) -> str:
    return re.sub(r"\\u\{([0-9a-fA-F]+)\}", lambda m: chr(int(m.group(1), 16)), w)


def models(regex, k=20, timeout=20):
    """Up to k distinct members of the language (solver-generated)."""
    s = z3.String("s")
    sol = z3.Solver()
    sol.set("timeout", timeout * 1000)
    sol.add(z3.InRe(s, regex))
    out = []
    for i in range(k):
        if str(sol.check()) != "sat":
            break
        v = sol.model()[s]
        w = _unescape(v.as_string()) if v is not None else ""
        out.append(w)
        sol.add(s != z3.StringVal(w))
        sol.add(z3.Length(s) != len(w) if i % 2 == 0 else z3.BoolVal(True))
    return out


def accepts(pattern, w):
    """Membership in the language the translator claims: whole-string match, where a pattern-final `$`
    keeps Python's meaning (end, or just before a final newline)."""
    if pattern.pattern.endswith("$") and not pattern.pattern.endswith("\\$"):
        m = pattern.match(w)
        return m is not None
    return pattern.fullmatch(w) is not None


def validate(pattern, k=12):
    """Translator self-check: solver-drawn members of L and of the complement must agree with the real engine."""
    tr = Translator(pattern)
    L = tr.language()
    bad = []
    n = 0
    for w in models(L, k):
        n += 1
        if not accepts(pattern, w):
            bad.append(("in L but the engine rejects", w))
    for w in models(z3.Complement(L), k):
        n += 1
        if accepts(pattern, w):
            bad.append(("engine accepts but not in L", w))
    return n, bad


def lit(s: str):
    return z3.Re(z3.StringVal(s)) if s else z3.Re(z3.StringVal(""))


def chars(cs: str):
    """Union of the given characters."""
    cps = sorted(set(ord(c) for c in cs))
    ranges = []
    for cp in cps:
        if ranges and ranges[-1][1] == cp - 1:
            ranges[-1] = (ranges[-1][0], cp)
        else:
            ranges.append((cp, cp))
    return _ranges_to_re(ranges)


def contains_any(cs: str):
    return z3.Concat(sigma_star(), chars(cs), sigma_star())
