"""One OS process = one (harness, partition) condition decided by CrossHair/z3.

usage: python -m engine.worker '<json spec>'
spec : {"module": "harness.c16", "func": "c16_step", "part": {...},
        "mode": "check" | "replay", "timeout": s, "path_timeout": s,
        "args": [...] (replay), "known_active": [...], "twin": bool, "samples": n}
The last stdout line is a JSON result object prefixed by "RESULT ".
"""
from __future__ import annotations

import importlib
import json
import os
import re
import sys
import time
import traceback

ROOT = os.path.dirname(os.path.dirname(os.path.abspath(__file__)))
if ROOT not in sys.path:
    sys.path.insert(0, ROOT)


# ----------------------------------------------------------------------------
# JSON transport of harness arguments


def enc(v):
    if isinstance(v, bool) or v is None or isinstance(v, (int, str)):
        return v
    if isinstance(v, float):
        if v != v or v in (float("inf"), float("-inf")):
            return {"__float__": repr(v)}
        return v
    if isinstance(v, (bytes, bytearray)):
        return {"__bytes__": bytes(v).hex()}
    if isinstance(v, tuple):
        return {"__tuple__": [enc(x) for x in v]}
    if isinstance(v, list):
        return [enc(x) for x in v]
    if isinstance(v, dict):
        return {"__dict__": [[enc(k), enc(x)] for k, x in v.items()]}
    return {"__repr__": repr(v)}


def dec(v):
    if isinstance(v, list):
        return [dec(x) for x in v]
    if isinstance(v, dict):
        if "__bytes__" in v:
            return bytes.fromhex(v["__bytes__"])
        if "__tuple__" in v:
            return tuple(dec(x) for x in v["__tuple__"])
        if "__float__" in v:
            return float(v["__float__"])
        if "__dict__" in v:
            return {dec(k): dec(x) for k, x in v["__dict__"]}
        raise ValueError("cannot decode %r" % (v,))
    return v


# ----------------------------------------------------------------------------
# which urllib3 functions were entered (evidence: functions_encoded)

_ENTERED = set()


def _install_fn_monitor():
    try:
        mon = sys.monitoring
        tool = 3
        mon.use_tool_id(tool, "verif")

        def on_start(code, offset):
            fn = code.co_filename
            if "/src/urllib3/" in fn:
                _ENTERED.add(fn.split("/src/", 1)[1] + ":" + code.co_qualname)
            return mon.DISABLE

        mon.register_callback(tool, mon.events.PY_START, on_start)
        mon.set_events(tool, mon.events.PY_START)
    except Exception:
        pass


# ----------------------------------------------------------------------------


def _pre_lines(fn):
    doc = fn.__doc__ or ""
    return [m.group(1).strip() for m in re.finditer(r"^\s*pre:\s*(.+)$", doc, re.M)]


def native_call(mod, fn, args):
    """Plain-Python execution of the harness (no engine)."""
    import inspect
    from kit import h

    h.INFO.clear()
    names = list(inspect.signature(fn).parameters)
    env = dict(zip(names, args))
    pre_ok = True
    for line in _pre_lines(fn):
        try:
            if not eval(line, fn.__globals__, dict(env)):
                pre_ok = False
        except Exception:
            pre_ok = False
    try:
        ret = fn(*args)
        exc = None
    except Exception as e:
        ret = False
        exc = "".join(traceback.format_exception(e))[-3000:]
    return {"pre_ok": pre_ok, "ok": bool(ret), "exc": exc, "info": _jsonable(h.INFO)}


def _jsonable(x):
    try:
        json.dumps(x)
        return x
    except Exception:
        if isinstance(x, dict):
            return {str(k): _jsonable(v) for k, v in x.items()}
        if isinstance(x, (list, tuple)):
            return [_jsonable(v) for v in x]
        return repr(x)


def crosshair_run(fn, timeout, path_timeout, max_iter=None):
    import collections
    import z3
    import crosshair.core_and_libs  # noqa: registers opcode patches and library models
    from kit import chpatch
    chpatch.apply()
    from crosshair.core import analyze_function, run_checkables
    from crosshair.options import AnalysisKind, AnalysisOptionSet

    stats = collections.Counter()
    zc = {"n": 0, "t": 0.0, "unknown": 0}
    orig_check = z3.Solver.check

    def counted(self, *a):
        t0 = time.perf_counter()
        r = orig_check(self, *a)
        zc["t"] += time.perf_counter() - t0
        zc["n"] += 1
        if str(r) == "unknown":
            zc["unknown"] += 1
        return r

    z3.Solver.check = counted
    try:
        kw = dict(
            per_condition_timeout=float(timeout),
            per_path_timeout=float(path_timeout),
            report_all=True,
            stats=stats,
            analysis_kind=[AnalysisKind.PEP316],
            max_uninteresting_iterations=10**9,
        )
        if max_iter:
            kw["max_iterations"] = max_iter
        opts = AnalysisOptionSet(**kw)
        t0 = time.perf_counter()
        msgs = run_checkables(analyze_function(fn, opts))
        wall = time.perf_counter() - t0
    finally:
        z3.Solver.check = orig_check
    out = []
    for m in msgs:
        out.append({"state": m.state.name, "message": m.message[:2000], "line": m.line})
    return {
        "messages": out,
        "stats": {k: int(v) for k, v in stats.items() if isinstance(v, (int, float))},
        "z3_checks": zc["n"],
        "z3_seconds": round(zc["t"], 3),
        "z3_unknown": zc["unknown"],
        "wall": round(wall, 3),
    }


def main():
    spec = json.loads(sys.argv[1])
    res = {"spec": {k: spec[k] for k in ("module", "func", "part", "mode") if k in spec}}
    t_start = time.perf_counter()
    try:
        os.environ.setdefault("URLLIB3_VERIF", "1")
        from kit import h

        h.P.clear()
        h.P.update(spec.get("part") or {})
        h.KNOWN_ACTIVE = set(spec.get("known_active") or [])
        mod = importlib.import_module(spec["module"])
        fn = getattr(mod, spec["func"])
        if hasattr(mod, "setup"):
            mod.setup()
        # index-enumeration harnesses: evaluate the partition's dimensions once, natively, BEFORE the analysis starts
        # (a cache filled on the first path would make that path differ from the others)
        dims_fn = (getattr(mod, "DIMS", None) or {}).get(spec["func"])
        if dims_fn is not None:
            h.DIMS_NOW = dims_fn(h.P)
            sl = (spec.get("part") or {}).get("islice")
            h.ISLICE = tuple(sl) if sl else None
        if not getattr(mod, "NO_FAST_PATHS", False):
            from kit import fast
            fast.install()

        if spec["mode"] == "replay":
            h.TWIN = bool(spec.get("twin"))
            r = native_call(mod, fn, [dec(a) for a in spec["args"]])
            res.update(r)
            res["known_hits"] = list(h.KNOWN_HITS)
        else:
            _install_fn_monitor()
            # 1. reachability twin (vacuity guard): must be refuted, and natively too
            twin = None
            if spec.get("twin", True):
                h.TWIN = True
                h.FAILS.clear()
                tr = crosshair_run(fn, min(float(spec["timeout"]), 60.0), spec.get("path_timeout", 30))
                h.TWIN = False
                twin = {"states": [m["state"] for m in tr["messages"]], "wall": tr["wall"]}
                if h.FAILS:
                    a = h.FAILS[0]["args"]
                    twin["args"] = enc(a)
                    h.TWIN = True
                    nr = native_call(mod, fn, a)
                    h.TWIN = False
                    twin["reached_natively"] = bool(nr["pre_ok"] and not nr["ok"] and not nr["exc"])
                else:
                    twin["reached_natively"] = False
                    twin["messages"] = tr["messages"]
                h.FAILS.clear()
            res["twin"] = twin
            # 2. the real run
            h.SAMPLE_BUDGET = int(spec.get("samples", 2))
            h.SAMPLES.clear()
            h.NONTRIVIAL.clear()
            cr = crosshair_run(fn, spec["timeout"], spec.get("path_timeout", 30), spec.get("max_iter"))
            res.update(cr)
            res["fails"] = [enc(f) for f in h.FAILS]
            res["known_hits"] = list(h.KNOWN_HITS)
            res["nontrivial"] = dict(h.NONTRIVIAL)
            # 3. replay solver models of passing paths natively
            samples = list(h.SAMPLES)
            validated = 0
            bad = []
            for s in samples:
                nr = native_call(mod, fn, s["args"])
                if nr["pre_ok"] and nr["ok"]:
                    validated += 1
                else:
                    bad.append({"args": enc(s["args"]), "native": nr})
            res["samples"] = [enc(s["args"]) for s in samples]
            res["samples_validated"] = validated
            res["samples_disagree"] = bad
            res["functions"] = sorted(_ENTERED)
        res["error"] = None
    except BaseException as e:  # worker crash → harness error (exit 3 upstream)
        res["error"] = "".join(traceback.format_exception(e))[-4000:]
    res["total_wall"] = round(time.perf_counter() - t_start, 3)
    sys.stdout.write("\nRESULT " + json.dumps(res) + "\n")
    sys.stdout.flush()


if __name__ == "__main__":
    main()
